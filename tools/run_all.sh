#!/bin/bash
# usage: run_all.sh [quick|thorough]  -- runs every check and prints one summary line per property
T=${1:-quick}
cd /verif
for p in C01 C02 C03 C04 C05 C06 C07 C08 C09 C10 C11 C12 C13 C14 C15 C16 C17 C18 C19 C20; do
  s=$(date +%s); out=$(./vcheck run $p --tier $T 2>&1); rc=$?; e=$(date +%s)
  echo "$p rc=$rc total=$((e-s))s | $(echo "$out" | grep -E "^(VIOLATION|KNOWN|MACHINERY)" | head -2 | tr '\n' ' ') $(echo "$out" | tail -1 | cut -c1-260)"
done
