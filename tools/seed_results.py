#!/usr/bin/env python3
"""Fold the seed matrix (tools/seed_matrix.sh -> /tmp/vseed/RESULTS.tsv) into seeded/*/meta.json and seeded/RESULTS.md."""
import json, os, re, sys
ROOT = os.path.dirname(os.path.dirname(os.path.abspath(__file__)))
src = sys.argv[1] if len(sys.argv) > 1 else "/tmp/vseed/RESULTS.tsv"
rows = {}
for line in open(src, errors="replace"):
    m = re.match(r"^((?:R\d\d-|C\d\d-)[^\t]+)\t(C\d\d)\t(rc=\d+)\t?(.*)$", line.rstrip("\n"))
    if m:
        rows.setdefault(m.group(1), []).append((m.group(2), m.group(3), m.group(4)[:300]))
out = ["# Seeded property-breaking changes: which check catches which change", "",
       "Produced by `tools/seed_matrix.sh` (quick tier, scratch copy of /repo and /verif) and `tools/seed_results.py`.",
       "`rc=1` = the check exits 1 with a VIOLATION line (detected); `rc=0` = not detected by that check.", "",
       "| seed | breaks | check | result | first counterexample |", "|---|---|---|---|---|"]
for d in sorted(os.listdir(os.path.join(ROOT, "seeded"))):
    mp = os.path.join(ROOT, "seeded", d, "meta.json")
    if not os.path.exists(mp):
        continue
    m = json.load(open(mp))
    # merge: results persist in meta.json; a newer run of the same check replaces the older one
    merged = {e["check"]: e for e in (m.get("detected_by") or [])}
    for p, rc, ce in rows.get(d, []):
        prev = merged.get(p)
        entry = {"check": p, "tier": "quick", "detected": rc == "rc=1", "first_counterexample": ce}
        if prev and not prev.get("detected") and entry["detected"]:
            entry["note"] = "missed by the first version of the check; detected after the check was strengthened (see DESIGN.md section 13)"
        if prev and prev.get("note") and "note" not in entry:
            entry["note"] = prev["note"]
        merged[p] = entry
    if merged:
        m["detected_by"] = list(merged.values())
        json.dump(m, open(mp, "w"), indent=1)
    for e in merged.values():
        ce = (e.get("first_counterexample") or "").replace("|", "\\|")
        res_txt = "detected" if e["detected"] else "not detected"
        if e.get("note"):
            res_txt += " (after strengthening)" if e["detected"] else ""
        out.append(f"| {d} | {m.get('breaks_property')} | {e['check']} | {res_txt} | `{ce[:160]}` |")
    if not merged:
        out.append(f"| {d} | {m.get('breaks_property')} | - | not run yet | |")
open(os.path.join(ROOT, "seeded", "RESULTS.md"), "w").write("\n".join(out) + "\n")
print(len(rows), "seeds with results")
