#!/usr/bin/env python3
"""Fold the seed matrix (tools/seed_matrix.sh -> /tmp/vseed/RESULTS.tsv) into seeded/*/meta.json and seeded/RESULTS.md."""
import json, os, re, sys
ROOT = os.path.dirname(os.path.dirname(os.path.abspath(__file__)))
src = sys.argv[1] if len(sys.argv) > 1 else "/tmp/vseed/RESULTS.tsv"
rows = {}
for line in open(src, errors="replace"):
    m = re.match(r"^((?:R\d\d-|C\d\d-)[^\t]+)\t(C\d\d)\t(rc=\d+)\t?(.*)$", line.rstrip("\n"))
    if m:
        rows.setdefault(m.group(1), []).append((m.group(2), m.group(3), m.group(4)[:300]))
out = ["# Seeded property-breaking changes: which check catches which change", "",
       "Produced by `tools/seed_matrix.sh` (quick tier, scratch copy of /repo and /verif) and `tools/seed_results.py`.",
       "`rc=1` = the check exits 1 with a VIOLATION line (detected); `rc=0` = not detected by that check.", "",
       "| seed | breaks | check | result | first counterexample |", "|---|---|---|---|---|"]
for d in sorted(os.listdir(os.path.join(ROOT, "seeded"))):
    mp = os.path.join(ROOT, "seeded", d, "meta.json")
    if not os.path.exists(mp):
        continue
    m = json.load(open(mp))
    res = rows.get(d, [])
    if res:
        m["detected_by"] = [{"check": p, "tier": "quick", "detected": rc == "rc=1", "first_counterexample": ce} for p, rc, ce in res]
        json.dump(m, open(mp, "w"), indent=1)
    for p, rc, ce in res:
        ce = ce.replace("|", "\\|")
        out.append(f"| {d} | {m.get('breaks_property')} | {p} | {'detected' if rc == 'rc=1' else 'not detected (' + rc + ')'} | `{ce[:160]}` |")
    if not res:
        out.append(f"| {d} | {m.get('breaks_property')} | - | not run yet | |")
open(os.path.join(ROOT, "seeded", "RESULTS.md"), "w").write("\n".join(out) + "\n")
print(len(rows), "seeds with results")
