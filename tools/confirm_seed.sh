#!/bin/bash
# usage: confirm_seed.sh <dir with patch.diff demo.rs notes.md> <seed-id> <prop> [features]
# Confirms in a scratch worktree that the change (a) compiles, (b) passes the pinned suite, (c) makes the demo fail,
# and that the demo passes without it; then stores it as /verif/seeded/<seed-id>/.
set -u
SRC=$(realpath "$1"); ID="$2"; PROP="$3"; FEAT="${4:-}"; XF="${5:-}"   # XF: extra cargo test flags for the demo, e.g. --release
WT=${CONFIRM_WT:-/tmp/mut/confirm}
if [ ! -d $WT ]; then git -C /repo worktree add --detach $WT HEAD >/dev/null 2>&1; cp /repo/Cargo.lock $WT/; fi
cd $WT || exit 2
git checkout -q --detach $(git -C /repo rev-parse HEAD) 2>/dev/null
git checkout -- . ; rm -f tests/demo_seed.rs
FA=""; [ -n "$FEAT" ] && FA="--features $FEAT"
mkdir -p tests; cp "$SRC/demo.rs" tests/demo_seed.rs
clean_demo=$(cargo test --offline $XF $FA --test demo_seed 2>&1 | grep -E "^test result" | tail -1)
git apply "$SRC/patch.diff" || { echo "$ID: patch does not apply"; exit 2; }
mut_demo=$(cargo test --offline $XF $FA --test demo_seed 2>&1 | grep -E "^test result|error(\[|:)" | tail -1)
rm -f tests/demo_seed.rs
suite=$(cargo nextest run --workspace --no-fail-fast --offline --test-threads 8 2>&1 | grep -E "Summary" | tail -1)
git checkout -- .
echo "$ID clean-demo: $clean_demo | mutated-demo: $mut_demo | suite-with-change: $suite"
ok=no
if echo "$clean_demo" | grep -q "test result: ok" && echo "$mut_demo" | grep -qE "FAILED|test failed|could not compile .* \(test \"demo_seed\"\)" && echo "$suite" | grep -q "111 passed"; then ok=yes; fi
D=/verif/seeded/$ID; mkdir -p $D
cp "$SRC/patch.diff" $D/patch.diff; cp "$SRC/demo.rs" $D/demo.rs; cp "$SRC/notes.md" $D/notes.md 2>/dev/null
python3 - "$D" "$ID" "$PROP" "$FEAT $XF" "$clean_demo" "$mut_demo" "$suite" "$ok" <<'PY'
import json,sys
d,i,prop,feat,cd,md,su,ok=sys.argv[1:]
notes=open(d+"/notes.md").read() if __import__("os").path.exists(d+"/notes.md") else ""
json.dump({"id":i,"breaks_property":prop,"origin":"independent sub-agent given only the property text and a scratch worktree",
 "needs_to_manifest":"see notes.md (written by the author of the change)",
 "demo_features":feat,
 "confirmed":{"confirmed_by_me":ok=="yes","demo_on_clean_tree":cd,"demo_with_change":md,"pinned_suite_with_change":su,
   "commands":["cargo test --offline [--features F] --test demo_seed   (clean tree, then with patch.diff applied)","cargo nextest run --workspace --no-fail-fast --offline --test-threads 8   (with patch.diff applied)"]},
 "detected_by":None}, open(d+"/meta.json","w"), indent=1)
PY
echo "$ID confirmed=$ok"
