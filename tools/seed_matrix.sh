#!/bin/bash
# Runs every seeded change against its property's quick check in a SCRATCH copy (repo worktree + copy of
# /verif with its own target dir), so /repo and /verif stay usable meanwhile. Writes seeded/RESULTS.tsv in
# the scratch copy; tools/seed_results.py folds it into seeded/*/meta.json and RESULTS.md.
set -u
S=${SEED_SCRATCH:-/tmp/vseed}
if [ ! -d $S/repo ]; then mkdir -p $S; git -C /repo worktree add --detach $S/repo HEAD >/dev/null 2>&1; cp /repo/Cargo.lock $S/repo/; fi
git -C $S/repo checkout -q --detach $(git -C /repo rev-parse HEAD); git -C $S/repo checkout -- .
mkdir -p $S/verif
# committed state only (so that work in progress in /verif cannot break the matrix)
find $S/verif -mindepth 1 -maxdepth 1 ! -name target -exec rm -rf {} +
git -C /verif archive ${REV:-HEAD} | tar -x -C $S/verif
sed -i "s|path = \"/repo\"|path = \"$S/repo\"|" $S/verif/harness/Cargo.toml
sed -i "s|target-dir = \"/verif/target\"|target-dir = \"$S/verif/target\"|" $S/verif/harness/.cargo/config.toml
if [ -d $S/verif/harness_alt ]; then
  sed -i "s|path = \"/repo\"|path = \"$S/repo\"|" $S/verif/harness_alt/Cargo.toml
  sed -i "s|target-dir = \"/verif/target/alt\"|target-dir = \"$S/verif/target/alt\"|" $S/verif/harness_alt/.cargo/config.toml
fi
cd $S/verif && VERIF_ROOT=$S/verif ./vcheck setup >/dev/null 2>&1
: > $S/RESULTS.tsv
for d in /verif/seeded/*/; do
  id=$(basename $d)
  props=$(python3 - "$d" <<'PY'
import json,sys,os
d=sys.argv[1]; 
m=json.load(open(d+"meta.json")) if os.path.exists(d+"meta.json") else {}
p=m.get("breaks_property")
extra=m.get("also_check",[])
print(" ".join([p]+extra) if p else "")
PY
)
  [ -z "$props" ] && continue
  [ -n "${ONLY:-}" ] && [[ ! " $ONLY " =~ " $id " ]] && continue
  git -C $S/repo checkout -- . ; git -C $S/repo apply $d/patch.diff || { echo -e "$id\t-\tPATCH-DOES-NOT-APPLY" >> $S/RESULTS.tsv; continue; }
  for p in $props; do
    out=$(cd $S/verif && VERIF_ROOT=$S/verif ./vcheck run $p --tier ${TIER:-quick} 2>&1); rc=$?
    first=$(echo "$out" | grep -A1 "^VIOLATION" | sed -n 2p | cut -c1-400)
    echo -e "$id\t$p\trc=$rc\t$first" >> $S/RESULTS.tsv
  done
  git -C $S/repo checkout -- .
done
echo done >> $S/RESULTS.tsv
