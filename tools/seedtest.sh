#!/bin/bash
# usage: seedtest.sh <seeded-dir-or-patch> <prop> [<prop>...]   -- applies the patch to /repo, runs the quick checks, reverts
set -u
P="$1"; shift
P=$(realpath "$P"); [ -d "$P" ] && P="$P/patch.diff"
cd /repo || exit 2
if ! git diff --quiet; then echo "/repo has uncommitted changes; refusing"; exit 2; fi
git apply "$P" || { echo "patch does not apply"; exit 2; }
trap 'git -C /repo checkout -- . ' EXIT
cd /verif
for prop in "$@"; do
  out=$(./vcheck run "$prop" --tier "${TIER:-quick}" 2>&1); rc=$?
  echo "== $prop rc=$rc"
  echo "$out" | grep -E "^(VIOLATION|KNOWN-FINDING|MACHINERY|  \[)" | head -${LINES_SHOWN:-6}
  echo "$out" | tail -1
done
