#!/bin/bash
# usage: REV=<commit of /verif to test against> process_round.sh <tag> "Cxx <outdir> mNN" ...
# For every entry: confirm the agent's change in a scratch worktree (tools/confirm_seed.sh -> /verif/seeded/Cxx-mNN),
# then run the seed matrix for exactly those ids against the committed state REV of /verif.
# Scratch: /tmp/mut/confirm_<tag> (worktree) and /tmp/vseed_<tag>; results in /tmp/vseed_<tag>/RESULTS_<tag>.tsv
set -u
TAG=$1; shift
export CONFIRM_WT=/tmp/mut/confirm_$TAG SEED_SCRATCH=/tmp/vseed_$TAG
ids=""
for e in "$@"; do
  set -- $e; P=$1; OUT=$2; M=$3
  D=$OUT/$P/$M
  [ -f $D/patch.diff ] && [ -f $D/demo.rs ] || { echo "$P-$M: missing files in $D"; continue; }
  F=$(tr -d ' \n' < $D/features.txt 2>/dev/null)
  X=""; [ -f $D/release.txt ] && X="--release"   # a change that only manifests without debug assertions
  /verif/tools/confirm_seed.sh $D $P-$M $P "$F" "$X"
  ids="$ids $P-$M"
done
ONLY="$ids" /verif/tools/seed_matrix.sh
cp $SEED_SCRATCH/RESULTS.tsv $SEED_SCRATCH/RESULTS_$TAG.tsv
echo "process_round $TAG finished: $ids"
