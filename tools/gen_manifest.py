#!/usr/bin/env python3
"""Regenerate /verif/MANIFEST.json from the table below (keeps it valid at all times)."""
import json, os, subprocess
ROOT = os.path.dirname(os.path.dirname(os.path.abspath(__file__)))

E1 = "bounded exhaustive differential exploration on the real code"
CHECKS = {
 # id: (engine, design_ref, technique, level text, level note)
 "C01": ("mc_arith", "4/C01", "exhaustive enumeration of all operand pairs (all 2^B values at small widths, full limb-alphabet products at wide widths) on the real code vs a BigUint reference model",
         "Every add/sub/neg entry point (methods, six operator shapes, iterator sums) is executed on every pair of a finite universe - all values at widths 0..8 (10 thorough), every coincidence of extreme limbs at 9..21 edge widths - and compared with exact integer arithmetic; the deciding step is complete enumeration, not sampling.",
         "Decides the property for the enumerated universes only: at >= 2 limbs limbs are drawn from fixed alphabets, widths from a grid. Trusted: rustc/LLVM, num-bigint as oracle, x86_64 only."),
 "C02": ("mc_arith", "4/C02", "exhaustive enumeration of all operand pairs / sequences and the (BITS,BITS_RHS) grid on the real code vs BigUint products",
         "All mul variants, inv_ring, products and widening_mul (66 width pairs) run on complete finite universes and are compared with exact products; covers every trimming/early-exit combination of the multiplication kernel by construction of the alphabets.",
         "Same bounds as C01; widening_mul only on the listed width pairs."),
 "C03": ("mc_arith", "4/C03", "exhaustive enumeration of (n,d) pairs incl. d=0 and the derived universe n=q*d+r+delta on the real code vs BigUint div_rem; hook counters report rare-branch reach",
         "All division entry points on all pairs of the universes plus numerators constructed from extreme q, d, r; the evidence states how many executions reached add-back, forced-digit and reciprocal corrections (hook counters).",
         "Same bounds as C01. Hook counters only measure; no verdict depends on them."),
 "C10": ("mc_arith", "4/C10", "exhaustive enumeration of all (a,b,m) triples at small widths and alphabet triples at wide widths vs BigUint modular arithmetic",
         "reduce/add/mul/pow/inv_mod on every triple of S(B) (B<=5, 8 thorough) and on alphabet triples up to 512 bits, moduli 0,1,2,2^k,2^B-1 included by construction.",
         "Same bounds as C01."),
 "C13": ("mc_arith", "4/C13", "exhaustive enumeration of (base,exp), (value,base), (value,degree) at small widths and perfect-power neighbourhoods at wide widths vs integer-only reference (repeated multiplication, bisection), with a per-case termination watchdog",
         "pow/log/root families on all pairs at widths 0..8 (root: all values to 12/16 bits x all degrees), and on b^k+-1 neighbourhoods up to 2048 bits, plus two GIANT widths (65 536 and 131 072 bits: dense values, perfect powers and powers of 3 / 7 / 10 just below the width, +-1) for root and log; non-termination is detected by a watchdog and reported as a violation.",
         "Same bounds as C01; watchdog horizon 20 s per case."),
 "C05": ("mc_bits", "4/C05", "exhaustive enumeration of (value, amount) with EVERY amount in [0, BITS+64*LIMBS+1], all 10 primitive amount types x 4 operator shapes, and Uint-typed amounts of any magnitude, on the real code vs BigUint shifts",
         "All shift/rotate methods and every operator overload are executed for every amount in the stated range on complete value universes (all values to 10/12 bits; limb-alphabet products, run shapes and 2^k+-1 at edge widths to 1024 bits) and compared with exact integer shifts including the lost-bit flags.",
         "Decides the property for the enumerated universes; negative signed amounts are outside the property. Trusted: rustc/LLVM, num-bigint."),
 "C06": ("mc_bits", "4/C06", "exhaustive enumeration of values (all 2^B for B<=16), all pairs for binary logic, and every index in [0,BITS+64] for accessors, vs the BigUint binary expansion",
         "Every bit-level entry point is compared with the binary expansion on complete universes, indices beyond the width included (false / None / no write / panic as documented).",
         "Same bounds as C05."),
 "C07": ("mc_conv", "4/C07", "exhaustive enumeration of ALL values of the 8/16-bit source types, 2^k+-1 alphabets of the wider ones, limb slices of every length, and a 10x10 Uint->Uint width grid, on the real code vs exact integer range/wrap/saturate semantics incl. error payloads; plus a layout probe: the conversions of values stored at an address that is 8 modulo 16 vs a 16-aligned one, one process per type and library build",
         "Every conversion entry point (try/from/wrapping/saturating, value and reference forms, 13 primitive types, slices, Uint<->Uint) is executed on complete finite universes and compared including error kind and payload.",
         "32/64/128-bit sources are enumerated over boundary alphabets, not all values (thorough: all 2^32 u32/i32 at 4 widths). Trusted: rustc/LLVM casts, num-bigint."),
 "C08": ("mc_conv", "4/C08", "exhaustive enumeration of values for the encoders and of byte strings (ALL strings of length <= 2/3 at widths <= 25 bits; all run-shaped strings of every length 0..BYTES+8 at every width) for the decoders vs base-256 positional notation",
         "All byte encoders, copy forms (every buffer length 0..BYTES+2 with sentinel) and decoders are compared with the base-256 digits; full-length strings with excess high bits are in the universe for every mask class (60/120/250-bit widths included).",
         "Byte strings longer than 3 are run-shaped over a 5-byte alphabet. to_*_bytes::<N> only with N = BYTES."),
 "C18": ("mc_conv", "4/C18", "exhaustive enumeration of ALL 2^32 f32 bit patterns (width 64; 8 widths thorough), all 2048 f64 exponents x ~160 mantissa patterns x both signs plus 2^52+k / k+0.5 neighbourhoods, and 2^k*m value universes for Uint->float, vs an exact integer oracle on the IEEE fields",
         "Float->Uint results (value, error class, saturation) are compared with floor(f+1/2) computed exactly; Uint->float results must be one of the two exact neighbours, exact when representable, +inf only beyond the rounding range, and monotone along the sorted universe.",
         "f64 mantissas from a pattern alphabet (not all 2^52). Wrapped payloads of float errors are unspecified in the code and not compared. Trusted: IEEE-754 conformance of the hardware/LLVM for +,*,casts."),
 "C09": ("mc_fmt", "4/C09", "exhaustive enumeration of (value, base) round trips, all short digit strings over {0,1,b-1,b,b+1}, 6 formatting traits x 40 format specs x chunk-boundary values, and all strings of length <= 2 (+ length-3 families) over a 76-character set x every radix 0..=66, on the real code vs positional notation / std's primitive formatting",
         "Digit iterators, from_base_*, from_str_radix/FromStr and the six fmt traits are compared with reference digit strings, u128 formatting (where the value fits) and Formatter::pad_integral; error outcomes are checked as sets (error precedence is not part of the property).",
         "Bases from a fixed list at > 8 bits; strings longer than 3 characters only as formatted values / overflow-by-one strings. Trusted: std formatting of u128, num-bigint to_str_radix."),
 "C11": ("mc_kernels", "4/C11", "exhaustive enumeration, for every N in 1..=16, of moduli with top limb below/at/above both carry thresholds x structured operand sets (full a x b product per modulus), on algorithms::{mul_redc,square_redc} and Uint::{mul_redc,square_redc}, vs a*b*R^-1 mod m in BigUint; hook counters report the carry / subtraction paths reached",
         "Montgomery multiplication and squaring are compared with the exact residue (result must be < m) on a universe built around the two carry thresholds and the final conditional subtraction; N = 1 additionally for all odd m < 256 with all a, b < m.",
         "inv is computed by the harness (Newton), not by ruint. Operands are structured (extremes, run shapes, perturbations of m), not all values."),
 "C12": ("mc_kernels", "4/C12", "deviation-bounded exhaustive search of the tree of inverse Euclid steps (quotient sequences with <= D non-unit quotients, every node checked) + all pairs at small widths and over limb alphabets, on the real gcd/lcm/gcd_extended/LehmerMatrix code vs Euclid on BigUint",
         "Every pair reachable by quotient sequences with at most D deviations from the all-ones (Fibonacci) sequence is checked for gcd, lcm, the Bezout identity modulo 2^BITS and the Lehmer-matrix postcondition; hook counters report which Jebelean outcomes and fallbacks were reached.",
         "Quotients from a 7-element alphabet, 5 seeds; D = 2 (<= 129 bits) / 1 (wider) quick, 3 / 2 thorough. compose() is not checked (unused by the library, semantics undocumented)."),
 "C14": ("mc_kernels", "4/C14", "exhaustive enumeration of numerator x divisor slices (all length pairs 1..=12, alphabet products and run shapes, derived n = q*d + r + delta), all 256 reciprocal table rows x in-row offsets, boundary and structureless word alphabets for 2-by-1 / 3-by-2, vs BigUint / u128 division; preconditions checked by the harness before each call",
         "algorithms::div and each specialised kernel are compared with exact division on the sub-universe satisfying their documented conditions of use; hook counters state how often every correction branch was reached.",
         "Limb contents from alphabets / run shapes / fixed structureless words, not all 2^64 values."),
 "C15": ("mc_kernels", "4/C15", "exhaustive enumeration of slice triples with independent lengths 0..=10 (alphabet products for short, run shapes for long slices), word primitives on the boundary alphabet squared x carries, shifts by every amount 0..=63, vs BigUint",
         "addmul/addmul_n, the n x 1 kernels, adc/sbb families, small shifts and cmp are compared with exact integer results including the carry / borrow / overflow outputs.",
         "Same bounds as C14. Amount 0 is in contract for the small shifts (only stated precondition is amount < 64)."),
 "C16": ("mc_codec", "4/C16", "exhaustive enumeration of the mode-boundary value universe (2^k+d for every k, small values in wide types) over 22-26 widths x every integration: encoder bytes vs independent reference codecs (and vs the codec crate's own u128 encoding), exact lengths / hints / maxima, decode(encode(v)) = v, postgres round trips per column type (also two values into one buffer and Vec<Uint> as a postgres array), containers (Vec / array / Option / tuple of Uint) through borsh, SCALE, alloy-rlp, ssz, serde_json and bincode vs reference container encodings, the caller's buffer as a dimension (exact fixed slices, BytesMut with little capacity, short writes), fixed-width primitive-types / bytemuck / ark-ff conversions",
         "Every enabled integration is executed on a complete finite value universe per width and compared byte-for-byte with reference codecs written from the format definitions; round trips and advertised sizes are checked per case.",
         "Values from the stated universes, widths from the stated grid. JSON tokenisation and the codec crates' framing are trusted; diesel/sqlx/pyo3/bn-rs are not named by the property and not built."),
 "C17": ("mc_codec", "4/C17", "exhaustive enumeration of ALL byte strings of length <= 2 (3 thorough) and of every single-field mutation of every valid encoding (incl. out-of-range values and non-minimal forms), each input fed to EVERY decoder, vs reference readers that say what the bytes denote; container decoders (Vec / array / Option / tuple through six codecs) on mutated container encodings and hostile length prefixes; serde's value deserializers; termination watchdog",
         "No decoder may panic or hang; an accepted value must be the denoted one, canonical and < 2^BITS; alloy-rlp / fastrlp / DER must reject everything but the reference encoding. ~1.6*10^8 decoder executions in the quick tier.",
         "Inputs longer than 3 bytes are single mutations of valid encodings, not all strings. C17 never requires acceptance (that is C16)."),
 "C20": ("mc_facade", "4/C20", "exhaustive enumeration of operand tuples x ~130 facade entry points (six operator impl shapes, shift operators for 10 amount types and Uint amounts, every forwarded Bits method/operator, num-traits, num-integer, subtle, zeroize, Sum/Product); each execution returns (facade result, inherent result) from the real code, each side under its own catch_unwind",
         "The reference is the inherent method itself, called by path on the same operands in the same execution; results, Options, flags and panics must agree (a facade may panic only where the inherent method does or where its signature cannot express the inherent None).",
         "Universes: S(B)^2 for B<=8, limb-alphabet / 2^k+-1 universes at 10 wider widths, every shift/bit argument 0..B+65. Whether the inherent methods themselves are right is decided by C01-C13."),
 "C04": ("mc_canon", "4/C04", "explicit-state search (stateright BFS, transition function = the real operations, invariants canonical + equal to the Z/2^BITS reference on every edge; full closure at 0..8 bits, bounded depth at wide widths) + exhaustive enumeration of comparisons/hashing, rejecting constructors and generators driven by enumerated RNG tapes (in two feature configurations of ruint: all features, and rand without rand-09 in harness_alt) + bounded exhaustive program-space probe of ill-formed (BITS,LIMBS) pairs and of contradictory const-generic arguments / unsound casts on well-formed types (against both library builds) through the real compiler",
         "Closure of the canonical set under 96 operations (incl. every compound assignment operator) is searched exhaustively (every reachable state canonical, every edge equal to the reference); ==, Hash and ordering are compared with the integers on all pairs; constructors must reject out-of-range limbs; 68 constructors x 10 ill-formed type pairs must be rejected at compile time or panic (with control programs on well-formed types).",
         "quickcheck::Gen has a private entropy-seeded RNG: its draws are sampled and labelled so, not counted as exhaustive. Closure edges without a reference are checked for canonicity only. Trusted: stateright bookkeeping (BFS vs DFS counts cross-checked), rustc."),
 "C19": ("probe", "4/C19", "bounded exhaustive enumeration of a program space (bases x digit strings x underscore placement x suffix x 16-29 widths up to 4096, pass-through tokens alone and nested) compiled through the real rustc + ruint-macro built from the working tree, vs Python integers and run-time parsing of the same digits",
         "Every accepting literal's limbs and width are compared with the reference value and with from_str_radix at run time; every rejecting literal is its own program and must fail to compile; pass-through tokens must keep value and type at any nesting depth; failing batches are bisected to single literals.",
         "Token trees beyond the listed nesting shapes and digit strings beyond the stated patterns are not explored. Trusted: rustc, Python int."),
}

NOT_YET = {}

def main():
    props = [json.loads(l) for l in open(os.path.join(ROOT, "properties.jsonl"))]
    commits = subprocess.run(["git", "-C", "/repo", "log", "--format=%h %s"], capture_output=True, text=True).stdout.splitlines()
    hook_commits = [c.split()[0] for c in commits if c.split(" ", 1)[1].startswith("verif hooks")]
    checks = []
    na = []
    for p in props:
        pid = p["id"]
        if pid in CHECKS:
            eng, ref, tech, text, note = CHECKS[pid]
            checks.append({
                "property_id": pid,
                "quick_cmd": f"./vcheck run {pid} --tier quick",
                "thorough_cmd": f"./vcheck run {pid} --tier thorough",
                "evidence_file": f"/verif/evidence/{pid}.json",
                "replay_cmd_template": "./vcheck replay {path}",
                "engine": eng,
                "level_claimed": {"category": "model_checking", "text": text, "design_ref": "DESIGN.md section " + ref},
                "level_note": note,
                "technique": tech,
            })
        else:
            na.append({"property_id": pid, "reason": NOT_YET.get(pid, "check not built yet in this round (machinery in progress); no claim is made")})
    m = {
        "version": 1,
        "setup_cmd": "./vcheck setup",
        "hooks": {
            "guard": "--cfg recmo_uint_verif",
            "enable": "harness/.cargo/config.toml sets build.rustflags = [\"--cfg\", \"recmo_uint_verif\"] for every build of /repo done by the checks (target dir /verif/target)",
            "baseline_off_cmd": "cd /repo && cargo nextest run --workspace --no-fail-fast --tool-config-file pb:/w/lib/nextest.toml --profile pb --test-threads 8 --offline",
            "source_commits": hook_commits,
            "add_only": True,
        },
        "engines": [
            {"name": "mc_arith", "path": "harness/src/bin/mc_arith.rs", "serves_properties": ["C01", "C02", "C03", "C10", "C13"], "kind_free_text": E1},
            {"name": "mc_bits", "path": "harness/src/bin/mc_bits.rs", "serves_properties": ["C05", "C06"], "kind_free_text": E1},
            {"name": "mc_conv", "path": "harness/src/bin/mc_conv.rs", "serves_properties": ["C07", "C08", "C18"], "kind_free_text": E1},
            {"name": "mc_fmt", "path": "harness/src/bin/mc_fmt.rs", "serves_properties": ["C09"], "kind_free_text": E1},
            {"name": "mc_codec", "path": "harness/src/bin/mc_codec.rs", "serves_properties": ["C16", "C17"], "kind_free_text": E1},
            {"name": "mc_kernels", "path": "harness/src/bin/mc_kernels.rs", "serves_properties": ["C11", "C12", "C14", "C15"], "kind_free_text": E1},
            {"name": "mc_facade", "path": "harness/src/bin/mc_facade.rs", "serves_properties": ["C20"], "kind_free_text": E1},
            {"name": "mc_canon", "path": "harness/src/bin/mc_canon.rs", "serves_properties": ["C04"], "kind_free_text": "explicit-state search (stateright) whose transition function calls the real operations + exhaustive enumeration of constructors/generators"},
            {"name": "harness_alt", "path": "harness_alt/src/main.rs", "serves_properties": ["C04"], "kind_free_text": "exhaustive enumeration of RNG tapes through the generators of a second feature configuration of ruint (rand without rand-09), run by ./vcheck run C04"},
            {"name": "probe", "path": "probe/probe_engine.py", "serves_properties": ["C19", "C04"], "kind_free_text": "bounded exhaustive exploration of a program space through the real compiler and macro"},
        ],
        "checks": checks,
        "not_applicable": na,
        "notes": "All checks rebuild ruint from /repo's working tree (cargo fingerprints) with hooks on. Known findings: /verif/known_findings.json. Seeded property-breaking changes: /verif/seeded/.",
    }
    m["engines"] = [e for e in m["engines"] if os.path.exists(os.path.join(ROOT, e["path"]))]
    json.dump(m, open(os.path.join(ROOT, "MANIFEST.json"), "w"), indent=1)
    print(f"MANIFEST.json: {len(checks)} checks, {len(na)} not_applicable")

if __name__ == "__main__":
    main()
