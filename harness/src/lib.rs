//! Verification harness for recmo/uint: bounded exhaustive differential exploration of the
//! real code against reference models (see /verif/DESIGN.md).
//!
//! Structure rule: *generic shims, non-generic engine*. The only width-generic code is the
//! `call::<B, L>(op, args)` function that `define_ops!` generates per group; universes,
//! reference models, comparison, evidence and replay work on `V`, limb vectors and BigUint.

pub mod refcodec;
pub mod runner;
pub mod universe;
pub mod v;

pub use runner::*;
pub use universe::*;
pub use v::*;

/// Argument kinds usable in `define_ops!` closures.
#[macro_export]
macro_rules! kind {
    (U) => { ::ruint::Uint<B, L> };
    (BT) => { ::ruint::Bits<B, L> };
    (N) => { usize };
    (W) => { u64 };
    (W128) => { u128 };
    (I) => { i128 };
    (BO) => { bool };
    (BY) => { Vec<u8> };
    (ST) => { String };
    (LS) => { Vec<u64> };
    (US) => { Vec<::ruint::Uint<B, L>> };
    (F64) => { f64 };
    (F32) => { f32 };
    (VV) => { $crate::v::V };
}

/// Define the entry points of a group: an `Op` enum, names, source text (for repros) and the
/// width-generic shim `call::<B, L>(op, args) -> V`.
#[macro_export]
macro_rules! define_ops {
    ( $( $id:ident = |$($arg:ident : $kind:ident),*| $body:expr ;)* ) => {
        #[derive(Clone, Copy, Debug, PartialEq, Eq, Hash, PartialOrd, Ord)]
        #[allow(non_camel_case_types)]
        pub enum Op { $($id),* }
        impl Op {
            pub const ALL: &'static [Op] = &[$(Op::$id),*];
            pub fn name(self) -> &'static str { match self { $(Op::$id => stringify!($id)),* } }
            pub fn src(self) -> &'static str { match self { $(Op::$id => stringify!(|$($arg: $kind),*| $body)),* } }
            pub fn by_name(n: &str) -> Option<Op> { Op::ALL.iter().copied().find(|o| o.name() == n) }
        }
        #[allow(unused_mut, unused_variables, unused_imports, clippy::all)]
        pub fn call<const B: usize, const L: usize, const BY: usize>(op: Op, args: &[$crate::v::V]) -> $crate::v::V {
            use $crate::v::{FromV, IntoV};
            match op {
                $(Op::$id => {
                    let mut it = args.iter();
                    $( let mut $arg: $crate::kind!($kind) = FromV::<B, L>::from_v(it.next().expect("harness: missing argument")); )*
                    IntoV::into_v($body)
                }),*
            }
        }
    };
}

/// Width dispatch: `dispatch_widths!(fn_name; w0, w1, ...)` defines
/// `fn_name(bits, op, args) -> V` calling `call::<bits, nlimbs(bits), nbytes(bits)>`.
#[macro_export]
macro_rules! dispatch_widths {
    ($name:ident, $call:ident, $opty:ty; $($w:literal),* $(,)?) => {
        pub const WIDTHS: &[usize] = &[$($w),*];
        pub fn $name(bits: usize, op: $opty, args: &[$crate::v::V]) -> $crate::v::V {
            match bits {
                $( $w => $call::<$w, { ($w + 63) / 64 }, { ($w + 7) / 8 }>(op, args), )*
                _ => panic!("harness: width {bits} is not instantiated in this group"),
            }
        }
    };
}

/// Standard `exec` + `replay` glue for a group: needs `dispatch`, `model` and `Op` in scope.
#[macro_export]
macro_rules! group_glue {
    () => {
        #[inline]
        pub fn exec(l: &mut $crate::runner::Local, bits: usize, op: Op, args: &[$crate::v::V]) {
            let got = l.guard(op.name(), op.src(), bits, args, || dispatch(bits, op, args));
            let e = model(bits, op, args);
            l.record(op.name(), op.src(), bits, args, got, e);
        }
        pub fn replay(path: &str) -> i32 {
            let case = match $crate::runner::load_replay(path) {
                Ok(c) => c,
                Err(e) => {
                    eprintln!("cannot load replay: {e}");
                    return 2;
                }
            };
            let Some(op) = Op::by_name(&case.op) else {
                eprintln!("unknown op {}", case.op);
                return 2;
            };
            $crate::runner::replay_verdict(&case, |c| {
                let _ = $crate::v::take_noncanon();
                let got = match $crate::runner::guarded(|| dispatch(c.bits, op, &c.args)) {
                    Ok(v) => v,
                    Err(_) => $crate::v::V::Panic,
                };
                let nc = $crate::v::take_noncanon();
                let e = model(c.bits, op, &c.args);
                let ok = $crate::runner::accepts(&e, &got) && !nc;
                (got, ok, $crate::runner::describe_expect(&e))
            })
        }
    };
}

/// Casts used by the type-coded conversion shims.
pub trait FromU128 {
    fn fu(v: u128) -> Self;
}
pub trait FromI128 {
    fn fi(v: i128) -> Self;
}
impl FromU128 for bool {
    fn fu(v: u128) -> Self {
        v != 0
    }
}
macro_rules! fu { ($($t:ty),*) => {$( impl FromU128 for $t { #[inline] fn fu(v: u128) -> Self { v as $t } } )*}; }
fu!(u8, u16, u32, u64, u128, usize);
macro_rules! fi { ($($t:ty),*) => {$( impl FromI128 for $t { #[inline] fn fi(v: i128) -> Self { v as $t } } )*}; }
fi!(i8, i16, i32, i64, i128, isize);

/// Iterator adaptor that hides the length of the wrapped iterator: `size_hint` answers `(0, None)`.
pub struct NoHint<I>(pub I);
impl<I: Iterator> Iterator for NoHint<I> {
    type Item = I::Item;
    fn next(&mut self) -> Option<I::Item> {
        self.0.next()
    }
    fn size_hint(&self) -> (usize, Option<usize>) {
        (0, None)
    }
}

/// A NON-FUSED iterator: yields the items of the wrapped iterator, but answers `None` once before item number `gap`
/// (and goes on yielding afterwards), like `map_while`, `scan`, a channel's `try_iter` or a batch reader. A consumer
/// such as `sum()` / `product()` must stop at the first `None`; what is left must still be there.
pub struct Gap<I> {
    pub it: I,
    pub gap: usize,
    pub pos: usize,
    pub done: bool,
}
impl<I: Iterator> Gap<I> {
    pub fn new(it: I, gap: usize) -> Self {
        Gap { it, gap, pos: 0, done: false }
    }
}
impl<I: Iterator> Iterator for Gap<I> {
    type Item = I::Item;
    fn next(&mut self) -> Option<I::Item> {
        if self.pos == self.gap && !self.done {
            self.done = true;
            return None;
        }
        self.pos += 1;
        self.it.next()
    }
}
