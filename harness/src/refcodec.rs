//! Independent reference codecs, written from the format definitions on BigUint.
//! Encoders return the format's own encoding of an integer; decoders return what a byte
//! string *denotes* under a lenient reading of the format (`None` = malformed / truncated /
//! not an unsigned integer), together with the number of bytes the item occupies.

use num_bigint::BigUint;
use num_traits::{One, Zero};

pub fn be_min(v: &BigUint) -> Vec<u8> {
    if v.is_zero() {
        vec![]
    } else {
        v.to_bytes_be()
    }
}
pub fn fixed_le(v: &BigUint, n: usize) -> Vec<u8> {
    let mut b = if v.is_zero() { vec![] } else { v.to_bytes_le() };
    assert!(b.len() <= n);
    b.resize(n, 0);
    b
}
pub fn fixed_be(v: &BigUint, n: usize) -> Vec<u8> {
    let mut b = fixed_le(v, n);
    b.reverse();
    b
}

// ---------------------------------------------------------------- RLP

pub fn rlp_string(p: &[u8]) -> Vec<u8> {
    if p.len() == 1 && p[0] < 0x80 {
        return p.to_vec();
    }
    if p.len() < 56 {
        let mut o = vec![0x80 + p.len() as u8];
        o.extend(p);
        o
    } else {
        let l = be_min(&BigUint::from(p.len()));
        let mut o = vec![0xb7 + l.len() as u8];
        o.extend(l);
        o.extend(p);
        o
    }
}
/// minimal big-endian RLP string of an integer
pub fn rlp(v: &BigUint) -> Vec<u8> {
    rlp_string(&be_min(v))
}
/// lenient RLP string item: (payload, bytes consumed)
pub fn rlp_item(b: &[u8]) -> Option<(&[u8], usize)> {
    let h = *b.first()?;
    if h < 0x80 {
        return Some((&b[..1], 1));
    }
    if h <= 0xb7 {
        let len = (h - 0x80) as usize;
        if b.len() < 1 + len {
            return None;
        }
        return Some((&b[1..1 + len], 1 + len));
    }
    if h <= 0xbf {
        let ll = (h - 0xb7) as usize;
        if b.len() < 1 + ll {
            return None;
        }
        let mut len = 0usize;
        for &x in &b[1..1 + ll] {
            len = len.checked_mul(256)?.checked_add(x as usize)?;
        }
        let end = (1 + ll).checked_add(len)?;
        if b.len() < end {
            return None;
        }
        return Some((&b[1 + ll..end], end));
    }
    None // list
}
pub fn rlp_denotes(b: &[u8]) -> Option<(BigUint, usize)> {
    let (p, used) = rlp_item(b)?;
    Some((BigUint::from_bytes_be(p), used))
}

// ---------------------------------------------------------------- SCALE

pub fn compact(v: &BigUint) -> Vec<u8> {
    let bl = v.bits();
    let low = v.iter_u64_digits().next().unwrap_or(0);
    if bl <= 6 {
        vec![(low as u8) << 2]
    } else if bl <= 14 {
        (((low as u16) << 2) | 1).to_le_bytes().to_vec()
    } else if bl <= 30 {
        (((low as u32) << 2) | 2).to_le_bytes().to_vec()
    } else {
        let b = v.to_bytes_le();
        assert!(b.len() <= 67);
        let mut o = vec![(((b.len() - 4) as u8) << 2) | 3];
        o.extend(b);
        o
    }
}
/// lenient compact integer: (value, consumed)
pub fn compact_denotes(b: &[u8]) -> Option<(BigUint, usize)> {
    let h = *b.first()?;
    match h & 3 {
        0 => Some((BigUint::from(h >> 2), 1)),
        1 => {
            if b.len() < 2 {
                return None;
            }
            Some((BigUint::from(u16::from_le_bytes([b[0], b[1]]) >> 2), 2))
        }
        2 => {
            if b.len() < 4 {
                return None;
            }
            Some((BigUint::from(u32::from_le_bytes([b[0], b[1], b[2], b[3]]) >> 2), 4))
        }
        _ => {
            let n = (h >> 2) as usize + 4;
            if b.len() < 1 + n {
                return None;
            }
            Some((BigUint::from_bytes_le(&b[1..1 + n]), 1 + n))
        }
    }
}
/// SCALE `Vec<u8>`: compact length prefix + bytes (ruint's fixed-width form = LE bytes of the value)
pub fn scale_bytes(p: &[u8]) -> Vec<u8> {
    let mut o = compact(&BigUint::from(p.len()));
    o.extend(p);
    o
}
pub fn scale_bytes_denotes(b: &[u8]) -> Option<(BigUint, usize, usize)> {
    // (value, payload length, consumed)
    let (len, used) = compact_denotes(b)?;
    let len: usize = len.iter_u64_digits().next().unwrap_or(0) as usize;
    if compact_denotes(b)?.0.bits() > 32 {
        return None;
    }
    let end = used.checked_add(len)?;
    if b.len() < end {
        return None;
    }
    Some((BigUint::from_bytes_le(&b[used..end]), len, end))
}

// ---------------------------------------------------------------- DER

pub fn der_len(n: usize) -> Vec<u8> {
    if n < 128 {
        vec![n as u8]
    } else {
        let l = be_min(&BigUint::from(n));
        let mut o = vec![0x80 | l.len() as u8];
        o.extend(l);
        o
    }
}
pub fn der_content(v: &BigUint) -> Vec<u8> {
    let mut c = be_min(v);
    if c.is_empty() || c[0] >= 0x80 {
        c.insert(0, 0);
    }
    c
}
/// canonical DER INTEGER
pub fn der(v: &BigUint) -> Vec<u8> {
    let c = der_content(v);
    let mut o = vec![0x02];
    o.extend(der_len(c.len()));
    o.extend(c);
    o
}
/// A byte string denotes v under DER iff it is exactly the canonical encoding of v (DER has a
/// single encoding per value; anything else is malformed, negative, or not an INTEGER).
pub fn der_denotes(b: &[u8]) -> Option<BigUint> {
    if b.len() < 3 || b[0] != 0x02 {
        return None;
    }
    // parse length leniently, then compare with the canonical form
    let (len, hl) = if b[1] < 0x80 {
        (b[1] as usize, 2)
    } else {
        let ll = (b[1] & 0x7f) as usize;
        if ll == 0 || ll > 4 || b.len() < 2 + ll {
            return None;
        }
        let mut len = 0usize;
        for &x in &b[2..2 + ll] {
            len = len * 256 + x as usize;
        }
        (len, 2 + ll)
    };
    if b.len() != hl + len || len == 0 {
        return None;
    }
    let c = &b[hl..];
    if c[0] >= 0x80 {
        return None; // negative
    }
    let v = BigUint::from_bytes_be(c);
    if der(&v) == b {
        Some(v)
    } else {
        None
    }
}

// ---------------------------------------------------------------- serde binary (bincode 1.x default)

pub fn bincode(v: &BigUint, nbytes: usize) -> Vec<u8> {
    let mut e = (nbytes as u64).to_le_bytes().to_vec();
    e.extend(fixed_be(v, nbytes));
    e
}
pub fn bincode_denotes(b: &[u8]) -> Option<(BigUint, usize)> {
    // (value, payload length)
    if b.len() < 8 {
        return None;
    }
    let len = u64::from_le_bytes(b[..8].try_into().unwrap());
    if len > (b.len() - 8) as u64 {
        return None;
    }
    let len = len as usize;
    Some((BigUint::from_bytes_be(&b[8..8 + len]), len))
}

// ---------------------------------------------------------------- JSON quantity

pub fn json_quantity(v: &BigUint) -> String {
    format!("\"0x{}\"", v.to_str_radix(16))
}

// ---------------------------------------------------------------- Postgres

pub fn pg_numeric(v: &BigUint) -> Vec<u8> {
    let mut dg: Vec<u16> = vec![];
    let mut t = v.clone();
    while !t.is_zero() {
        dg.push((&t % 10000u32).iter_u32_digits().next().unwrap_or(0) as u16);
        t /= 10000u32;
    }
    dg.reverse();
    let w = dg.len().saturating_sub(1) as i16;
    while dg.last() == Some(&0) {
        dg.pop();
    }
    let mut e = vec![];
    e.extend((dg.len() as i16).to_be_bytes());
    e.extend(w.to_be_bytes());
    e.extend([0, 0, 0, 0]);
    for d in &dg {
        e.extend(d.to_be_bytes());
    }
    e
}
/// NUMERIC denotes a non-negative integer when sign = 0, all digits are < 10000 and none of them
/// is fractional (weight >= ndigits - 1); dscale is a display property.
pub fn pg_numeric_denotes(b: &[u8]) -> Option<BigUint> {
    if b.len() < 8 {
        return None;
    }
    let nd = i16::from_be_bytes([b[0], b[1]]);
    let w = i16::from_be_bytes([b[2], b[3]]);
    let sign = u16::from_be_bytes([b[4], b[5]]);
    if nd < 0 || sign != 0 || b.len() != 8 + 2 * nd as usize {
        return None;
    }
    let mut v = BigUint::zero();
    for i in 0..nd as usize {
        let d = i16::from_be_bytes([b[8 + 2 * i], b[9 + 2 * i]]);
        if !(0..10000).contains(&d) {
            return None;
        }
        v = v * 10000u32 + d as u32;
    }
    if nd == 0 {
        return Some(BigUint::zero());
    }
    if (w as i32) < nd as i32 - 1 {
        return None; // fractional digits
    }
    if v.is_zero() {
        return Some(v);
    }
    let extra = (w as i32 - (nd as i32 - 1)) as u32;
    // cap: enormous weights denote numbers far beyond any width explored
    if extra > 4000 {
        return Some(BigUint::one() << 70_000usize);
    }
    Some(v * BigUint::from(10000u32).pow(extra))
}
pub fn pg_varbit(v: &BigUint, bits: usize) -> Vec<u8> {
    // big-endian bits, padded at the least significant end
    let nb = (bits + 7) / 8;
    let mut e = (bits as i32).to_be_bytes().to_vec();
    if bits == 0 {
        return e;
    }
    let pad = nb * 8 - bits;
    e.extend(fixed_be(&(v << pad), nb));
    e
}
pub fn pg_varbit_denotes(b: &[u8]) -> Option<BigUint> {
    if b.len() < 4 {
        return None;
    }
    let len = i32::from_be_bytes([b[0], b[1], b[2], b[3]]);
    if len < 0 {
        return None;
    }
    let len = len as usize;
    if b.len() - 4 != (len + 7) / 8 {
        return None; // truncated or overlong data
    }
    let pad = (len + 7) / 8 * 8 - len;
    Some(BigUint::from_bytes_be(&b[4..]) >> pad)
}

// ---------------------------------------------------------------- text (FromStr semantics)

/// documented alphabets: Ok(Some(digit)), Ok(None) = ignored character, Err = invalid character
pub fn char_digit(c: char, radix: u64) -> Result<Option<u64>, ()> {
    if radix <= 36 {
        match c {
            '0'..='9' => Ok(Some(c as u64 - '0' as u64)),
            'a'..='z' => Ok(Some(c as u64 - 'a' as u64 + 10)),
            'A'..='Z' => Ok(Some(c as u64 - 'A' as u64 + 10)),
            '_' => Ok(None),
            _ => Err(()),
        }
    } else {
        match c {
            'A'..='Z' => Ok(Some(c as u64 - 'A' as u64)),
            'a'..='z' => Ok(Some(c as u64 - 'a' as u64 + 26)),
            '0'..='9' => Ok(Some(c as u64 - '0' as u64 + 52)),
            '+' | '-' => Ok(Some(62)),
            '/' | ',' | '_' => Ok(Some(63)),
            '=' | '\r' | '\n' => Ok(None),
            _ => Err(()),
        }
    }
}

/// What a text denotes under `FromStr` (prefix sniffing 0x/0o/0b, decimal otherwise):
/// Ok(Some(v)) = the integer v; Ok(None) = no digits at all (no claim); Err = denotes nothing.
pub fn text_denotes(s: &str) -> Result<Option<BigUint>, ()> {
    let (rest, radix) = if s.len() >= 2 && s.is_char_boundary(2) {
        match &s[..2] {
            "0x" | "0X" => (&s[2..], 16u64),
            "0o" | "0O" => (&s[2..], 8),
            "0b" | "0B" => (&s[2..], 2),
            _ => (s, 10),
        }
    } else {
        (s, 10)
    };
    let mut v = BigUint::zero();
    let mut any = false;
    for c in rest.chars() {
        match char_digit(c, radix)? {
            Some(d) => {
                if d >= radix {
                    return Err(());
                }
                v = v * radix + d;
                any = true;
            }
            None => {}
        }
    }
    if any {
        Ok(Some(v))
    } else {
        Ok(None)
    }
}
