//! Group `bits` at the standard width grid (body: src/groups/bits.rs).
#![allow(clippy::all, dead_code, unused)]
macro_rules! width_list {
    () => {
        dispatch_widths!(dispatch, call, Op;
            0, 1, 2, 3, 4, 5, 6, 7, 8, 9, 10, 11, 12, 13, 14, 15, 16,
    60, 63, 64, 65, 72, 120, 127, 128, 129, 191, 192, 193, 200, 250, 255, 256, 257, 320, 384, 448, 511, 512, 513, 1024, 1088, 1150, 1216, 1280, 1344, 1408, 1471, 1536, 4096);
    };
}
const SWEEP: bool = false;
include!("../groups/bits.rs");
