//! Group `fmt` at the standard width grid (body: src/groups/fmt.rs).
#![allow(clippy::all, dead_code, unused)]
macro_rules! width_list {
    () => {
        dispatch_widths!(dispatch, call, Op;
            0, 1, 2, 3, 4, 5, 6, 7, 8, 9, 10, 11, 12, 13, 16, 59, 60, 61, 63, 64, 65, 66, 72, 120, 126, 127, 128, 129, 189, 192, 193, 200, 255, 256, 257, 320, 512, 1024, 4096);
    };
}
const SWEEP: bool = false;
include!("../groups/fmt.rs");
