//! Group `facade`: C20 (operator, wrapper and trait facades agree with the inherent methods).
//!
//! Every entry point returns the pair (facade result, inherent result), each side run under its own
//! `catch_unwind`; the reference is, as the property says, the inherent method itself. Inherent methods
//! are always called by path (`Uint::leading_zeros(&a)`): with `num_traits::PrimInt` in scope a method
//! call would resolve to the trait and the check would compare a facade with itself.
#![allow(clippy::all)]

use num_bigint::BigUint;
use ruint::{Bits, Uint};
use std::panic::{catch_unwind, AssertUnwindSafe};
use subtle::{Choice, ConditionallyNegatable, ConditionallySelectable, ConstantTimeEq, ConstantTimeGreater, ConstantTimeLess};
use vharness::*;

fn cu<A: IntoV>(f: impl FnOnce() -> A) -> V {
    match catch_unwind(AssertUnwindSafe(f)) {
        Ok(x) => x.into_v(),
        Err(_) => V::Panic,
    }
}
fn pair<A: IntoV, B: IntoV>(f: impl FnOnce() -> A, g: impl FnOnce() -> B) -> V {
    V::T(vec![cu(f), cu(g)])
}
fn arr<const N: usize>(v: &[u8]) -> [u8; N] {
    let mut a = [0u8; N];
    a.copy_from_slice(v);
    a
}
fn hh<T: std::hash::Hash>(x: &T) -> u64 {
    use std::hash::Hasher;
    let mut s = std::collections::hash_map::DefaultHasher::new();
    x.hash(&mut s);
    s.finish()
}
fn ch(c: Choice) -> bool {
    c.unwrap_u8() == 1
}

/// run `$e` with `$x` = the amount cast to the primitive type selected by the type code
macro_rules! by_ty {
    ($t:expr, $s:expr, |$x:ident| $e:expr) => {
        match $t {
            0 => { let $x = $s as usize; $e }
            1 => { let $x = $s as u8; $e }
            2 => { let $x = $s as u16; $e }
            3 => { let $x = $s as u32; $e }
            4 => { let $x = $s as u64; $e }
            5 => { let $x = $s as i8; $e }
            6 => { let $x = $s as i16; $e }
            7 => { let $x = $s as i32; $e }
            8 => { let $x = $s as i64; $e }
            9 => { let $x = $s as isize; $e }
            _ => panic!("harness: bad type code"),
        }
    };
}
const TY_MAX: [u128; 10] = [u64::MAX as u128, 255, 65535, u32::MAX as u128, u64::MAX as u128, 127, 32767, i32::MAX as u128, i64::MAX as u128, i64::MAX as u128];

/// binary operator in one of its six impl shapes
macro_rules! shapes {
    ($sh:expr, $a:ident, $b:ident, $op:tt, $opa:tt) => {
        match $sh {
            0 => $a $op $b,
            1 => $a $op &$b,
            2 => &$a $op $b,
            3 => &$a $op &$b,
            4 => { let mut x = $a; x $opa $b; x }
            5 => { let mut x = $a; x $opa &$b; x }
            _ => panic!("harness: bad shape"),
        }
    };
}
macro_rules! bits_shift_shapes {
    ($sh:expr, $a:ident, $s:ident, $op:tt, $opa:tt) => {
        match $sh {
            0 => $a $op $s,
            1 => &$a $op $s,
            2 => $a $op &$s,
            3 => &$a $op &$s,
            4 => { let mut x = $a; x $opa $s; x }
            5 => { let mut x = $a; x $opa &$s; x }
            _ => panic!("harness: bad shape"),
        }
    };
}

define_ops! {
    // ---- operator shapes (sh = 0..5: v op v, v op &v, &v op v, &v op &v, op= v, op= &v)
    op_add = |a: U, b: U, sh: N| pair(|| shapes!(sh, a, b, +, +=), || Uint::wrapping_add(a, b));
    op_sub = |a: U, b: U, sh: N| pair(|| shapes!(sh, a, b, -, -=), || Uint::wrapping_sub(a, b));
    // both operands the SAME object (an implementation may dispatch on pointer identity, e.g. to a squaring routine)
    op_alias = |a: U, k: N| pair(|| match k { 0 => &a + &a, 1 => &a - &a, 2 => &a * &a, 3 => &a / &a, 4 => &a % &a, 5 => &a & &a, 6 => &a | &a, _ => &a ^ &a }, || match k { 0 => Uint::wrapping_add(a, a), 1 => Uint::wrapping_sub(a, a), 2 => Uint::wrapping_mul(a, a), 3 => Uint::wrapping_div(a, a), 4 => Uint::wrapping_rem(a, a), 5 => a, 6 => a, _ => Uint::<B, L>::ZERO });
    op_mul = |a: U, b: U, sh: N| pair(|| shapes!(sh, a, b, *, *=), || Uint::wrapping_mul(a, b));
    op_div = |a: U, b: U, sh: N| pair(|| shapes!(sh, a, b, /, /=), || Uint::wrapping_div(a, b));
    op_rem = |a: U, b: U, sh: N| pair(|| shapes!(sh, a, b, %, %=), || Uint::wrapping_rem(a, b));
    op_and = |a: U, b: U, sh: N| pair(|| shapes!(sh, a, b, &, &=), || core::ops::BitAnd::bitand(a, b));
    op_or = |a: U, b: U, sh: N| pair(|| shapes!(sh, a, b, |, |=), || core::ops::BitOr::bitor(a, b));
    op_xor = |a: U, b: U, sh: N| pair(|| shapes!(sh, a, b, ^, ^=), || core::ops::BitXor::bitxor(a, b));
    op_neg = |a: U, sh: N| pair(|| if sh == 0 { -a } else { -&a }, || Uint::wrapping_neg(a));
    op_not = |a: U, sh: N| pair(|| if sh == 0 { !a } else { !&a }, || Uint::not(a));
    // through a NON-FUSED iterator that answers None once before item len/2: the items before the first None
    sum_gap = |s: US| pair(|| (Gap::new(s.iter().copied(), s.len() / 2).sum::<Uint<B, L>>(), Gap::new(s.iter(), s.len() / 2).sum::<Uint<B, L>>(), Gap::new(s.iter().copied(), s.len() / 2).product::<Uint<B, L>>(), Gap::new(s.iter(), s.len() / 2).product::<Uint<B, L>>()), || { let h = &s[..s.len() / 2]; let a = h.iter().fold(Uint::<B, L>::ZERO, |x, y| Uint::wrapping_add(x, *y)); let p = h.iter().fold(Uint::<B, L>::ONE, |x, y| Uint::wrapping_mul(x, *y)); (a, a, p, p) });
    sum = |s: US, r: N| pair(|| match r { 0 => s.iter().copied().sum::<Uint<B, L>>(), 1 => s.iter().sum::<Uint<B, L>>(), 2 => NoHint(s.iter().copied()).sum::<Uint<B, L>>(), 3 => NoHint(s.iter()).sum::<Uint<B, L>>(), _ => s.iter().copied().filter(|_| true).sum::<Uint<B, L>>() }, || s.iter().fold(Uint::<B, L>::ZERO, |x, y| Uint::wrapping_add(x, *y)));
    product = |s: US, r: N| pair(|| match r { 0 => s.iter().copied().product::<Uint<B, L>>(), 1 => s.iter().product::<Uint<B, L>>(), 2 => NoHint(s.iter().copied()).product::<Uint<B, L>>(), 3 => NoHint(s.iter()).product::<Uint<B, L>>(), _ => s.iter().copied().filter(|_| true).product::<Uint<B, L>>() }, || if B == 0 { Uint::<B, L>::ZERO } else { s.iter().fold(Uint::<B, L>::from(1u64), |x, y| Uint::wrapping_mul(x, *y)) });
    // shifts by a Uint amount (4 shapes) and by each primitive amount type (t = type code, 4 shapes)
    op_shl_uint = |a: U, s: U, sh: N| pair(|| match sh { 0 => a << s, 1 => a << &s, 2 => { let mut x = a; x <<= s; x } _ => { let mut x = a; x <<= &s; x } }, || match usize::try_from(s) { Ok(n) => Uint::wrapping_shl(a, n), Err(_) => Uint::<B, L>::ZERO });
    op_shr_uint = |a: U, s: U, sh: N| pair(|| match sh { 0 => a >> s, 1 => a >> &s, 2 => { let mut x = a; x >>= s; x } _ => { let mut x = a; x >>= &s; x } }, || match usize::try_from(s) { Ok(n) => Uint::wrapping_shr(a, n), Err(_) => Uint::<B, L>::ZERO });
    op_shl_prim = |a: U, t: N, s: W, sh: N| pair(|| by_ty!(t, s, |x| match sh { 0 => a << x, 1 => a << &x, 2 => { let mut y = a; y <<= x; y } _ => { let mut y = a; y <<= &x; y } }), || Uint::wrapping_shl(a, s as usize));
    op_shr_prim = |a: U, t: N, s: W, sh: N| pair(|| by_ty!(t, s, |x| match sh { 0 => a >> x, 1 => a >> &x, 2 => { let mut y = a; y >>= x; y } _ => { let mut y = a; y >>= &x; y } }), || Uint::wrapping_shr(a, s as usize));
    // ---- Bits wrapper: forwarded methods
    bits_reverse_bits = |a: U| pair(|| Bits::from(a).reverse_bits(), || Uint::reverse_bits(a));
    bits_as_le_bytes = |a: U| pair(|| Bits::from(a).as_le_bytes().to_vec(), || Uint::as_le_bytes(&a).to_vec());
    bits_to_be_bytes_vec = |a: U| pair(|| Bits::from(a).to_be_bytes_vec(), || Uint::to_be_bytes_vec(&a));
    bits_to_le_bytes = |a: U| pair(|| Bits::from(a).to_le_bytes::<BY>(), || Uint::to_le_bytes::<BY>(&a));
    bits_to_be_bytes = |a: U| pair(|| Bits::from(a).to_be_bytes::<BY>(), || Uint::to_be_bytes::<BY>(&a));
    bits_leading_zeros = |a: U| pair(|| Bits::from(a).leading_zeros(), || Uint::leading_zeros(&a));
    bits_leading_ones = |a: U| pair(|| Bits::from(a).leading_ones(), || Uint::leading_ones(&a));
    bits_trailing_zeros = |a: U| pair(|| Bits::from(a).trailing_zeros(), || Uint::trailing_zeros(&a));
    bits_trailing_ones = |a: U| pair(|| Bits::from(a).trailing_ones(), || Uint::trailing_ones(&a));
    bits_checked_shl = |a: U, s: N| pair(|| Bits::from(a).checked_shl(s), || Uint::checked_shl(a, s));
    bits_checked_shr = |a: U, s: N| pair(|| Bits::from(a).checked_shr(s), || Uint::checked_shr(a, s));
    bits_overflowing_shl = |a: U, s: N| pair(|| Bits::from(a).overflowing_shl(s), || Uint::overflowing_shl(a, s));
    bits_overflowing_shr = |a: U, s: N| pair(|| Bits::from(a).overflowing_shr(s), || Uint::overflowing_shr(a, s));
    bits_wrapping_shl = |a: U, s: N| pair(|| Bits::from(a).wrapping_shl(s), || Uint::wrapping_shl(a, s));
    bits_wrapping_shr = |a: U, s: N| pair(|| Bits::from(a).wrapping_shr(s), || Uint::wrapping_shr(a, s));
    bits_rotate_left = |a: U, s: N| pair(|| Bits::from(a).rotate_left(s), || Uint::rotate_left(a, s));
    bits_rotate_right = |a: U, s: N| pair(|| Bits::from(a).rotate_right(s), || Uint::rotate_right(a, s));
    bits_index = |a: U, i: N| pair(|| Bits::from(a)[i], || Uint::bit(&a, i));
    bits_try_from_be_slice = |s: BY| pair(|| Bits::<B, L>::try_from_be_slice(&s), || Uint::<B, L>::try_from_be_slice(&s));
    bits_try_from_le_slice = |s: BY| pair(|| Bits::<B, L>::try_from_le_slice(&s), || Uint::<B, L>::try_from_le_slice(&s));
    bits_from_be_bytes = |s: BY| pair(|| Bits::<B, L>::from_be_bytes::<BY>(arr::<BY>(&s)), || Uint::<B, L>::from_be_bytes::<BY>(arr::<BY>(&s)));
    bits_from_le_bytes = |s: BY| pair(|| Bits::<B, L>::from_le_bytes::<BY>(arr::<BY>(&s)), || Uint::<B, L>::from_le_bytes::<BY>(arr::<BY>(&s)));
    bits_from_str_radix = |s: ST, r: W| pair(|| Bits::<B, L>::from_str_radix(&s, r), || Uint::<B, L>::from_str_radix(&s, r));
    bits_from_limbs = |a: U| pair(|| Bits::<B, L>::from_limbs(*a.as_limbs()), || Uint::<B, L>::from_limbs(*a.as_limbs()));
    bits_as_limbs = |a: U| pair(|| *Bits::from(a).as_limbs(), || *Uint::as_limbs(&a));
    bits_from_str = |s: ST| pair(|| s.parse::<Bits<B, L>>(), || s.parse::<Uint<B, L>>());
    bits_eq_hash = |a: U, b: U| pair(|| { let (x, y) = (Bits::from(a), Bits::from(b)); (x == y, x != y, hh(&x) == hh(&y), Bits::<B, L>::default() == Bits::from(Uint::<B, L>::ZERO), <Uint<B, L> as From<Bits<B, L>>>::from(x) == a, x.into_inner() == a, *x.as_uint() == a) }, || (a == b, a != b, hh(&a) == hh(&b), true, true, true, true));
    bits_debug = |a: U| pair(|| format!("{:?}", Bits::from(a)), || format!("Bits({:?})", a));
    bits_not = |a: U, sh: N| pair(|| { let x = Bits::from(a); if sh == 0 { !x } else { !&x } }, || Uint::not(a));
    bits_and = |a: U, b: U, sh: N| pair(|| { let (x, y) = (Bits::from(a), Bits::from(b)); shapes!(sh, x, y, &, &=) }, || core::ops::BitAnd::bitand(a, b));
    bits_or = |a: U, b: U, sh: N| pair(|| { let (x, y) = (Bits::from(a), Bits::from(b)); shapes!(sh, x, y, |, |=) }, || core::ops::BitOr::bitor(a, b));
    bits_xor = |a: U, b: U, sh: N| pair(|| { let (x, y) = (Bits::from(a), Bits::from(b)); shapes!(sh, x, y, ^, ^=) }, || core::ops::BitXor::bitxor(a, b));
    bits_shl = |a: U, s: N, sh: N| pair(|| { let x = Bits::from(a); bits_shift_shapes!(sh, x, s, <<, <<=) }, || Uint::wrapping_shl(a, s));
    bits_shr = |a: U, s: N, sh: N| pair(|| { let x = Bits::from(a); bits_shift_shapes!(sh, x, s, >>, >>=) }, || Uint::wrapping_shr(a, s));
    // ---- num-traits
    nt_zero = | | pair(|| (<Uint<B, L> as num_traits::Zero>::zero(), <Uint<B, L> as num_traits::One>::one(), <Uint<B, L> as num_traits::Bounded>::min_value(), <Uint<B, L> as num_traits::Bounded>::max_value()), || (Uint::<B, L>::ZERO, if B == 0 { Uint::<B, L>::ZERO } else { Uint::<B, L>::from(1u64) }, Uint::<B, L>::MIN, Uint::<B, L>::MAX));
    nt_is_zero = |a: U| pair(|| num_traits::Zero::is_zero(&a), || Uint::is_zero(&a));
    x_nt_from_le_bytes = |s: BY| pair(|| <Uint<B, L> as num_traits::FromBytes>::from_le_bytes(&s), || Uint::<B, L>::try_from_le_slice(&s));
    x_nt_from_be_bytes = |s: BY| pair(|| <Uint<B, L> as num_traits::FromBytes>::from_be_bytes(&s), || Uint::<B, L>::try_from_be_slice(&s));
    // provided methods of the same traits
    nt_one_zero_provided = |a: U| pair(|| { let (mut o, mut z) = (a, a); num_traits::One::set_one(&mut o); num_traits::Zero::set_zero(&mut z); (num_traits::One::is_one(&a), o, z) }, || (a == Uint::<B, L>::ONE, Uint::<B, L>::ONE, Uint::<B, L>::ZERO));
    nt_to_ne_bytes = |a: U| pair(|| num_traits::ToBytes::to_ne_bytes(&a), || Uint::to_le_bytes_vec(&a));
    x_nt_from_ne_bytes = |s: BY| pair(|| <Uint<B, L> as num_traits::FromBytes>::from_ne_bytes(&s), || Uint::<B, L>::try_from_le_slice(&s));
    nt_to_le_bytes = |a: U| pair(|| num_traits::ToBytes::to_le_bytes(&a), || Uint::to_le_bytes_vec(&a));
    nt_to_be_bytes = |a: U| pair(|| num_traits::ToBytes::to_be_bytes(&a), || Uint::to_be_bytes_vec(&a));
    nt_checked_add = |a: U, b: U| pair(|| num_traits::CheckedAdd::checked_add(&a, &b), || Uint::checked_add(a, b));
    nt_checked_sub = |a: U, b: U| pair(|| num_traits::CheckedSub::checked_sub(&a, &b), || Uint::checked_sub(a, b));
    nt_checked_mul = |a: U, b: U| pair(|| num_traits::CheckedMul::checked_mul(&a, &b), || Uint::checked_mul(a, b));
    nt_checked_div = |a: U, b: U| pair(|| num_traits::CheckedDiv::checked_div(&a, &b), || Uint::checked_div(a, b));
    nt_checked_rem = |a: U, b: U| pair(|| num_traits::CheckedRem::checked_rem(&a, &b), || Uint::checked_rem(a, b));
    nt_checked_neg = |a: U| pair(|| num_traits::CheckedNeg::checked_neg(&a), || Uint::checked_neg(a));
    nt_checked_shl = |a: U, s: W| pair(|| num_traits::CheckedShl::checked_shl(&a, s as u32), || Uint::checked_shl(a, s as u32 as usize));
    nt_checked_shr = |a: U, s: W| pair(|| num_traits::CheckedShr::checked_shr(&a, s as u32), || Uint::checked_shr(a, s as u32 as usize));
    nt_checked_div_euclid = |a: U, b: U| pair(|| num_traits::CheckedEuclid::checked_div_euclid(&a, &b), || Uint::checked_div(a, b));
    nt_checked_rem_euclid = |a: U, b: U| pair(|| num_traits::CheckedEuclid::checked_rem_euclid(&a, &b), || Uint::checked_rem(a, b));
    // the combined forms are PROVIDED by num-traits (div_euclid + rem_euclid) unless the impl writes them out
    nt_div_rem_euclid = |a: U, b: U| pair(|| num_traits::Euclid::div_rem_euclid(&a, &b), || Uint::div_rem(a, b));
    nt_checked_div_rem_euclid = |a: U, b: U| pair(|| num_traits::CheckedEuclid::checked_div_rem_euclid(&a, &b), || if b.is_zero() { None } else { Some(Uint::div_rem(a, b)) });
    nt_div_euclid = |a: U, b: U| pair(|| num_traits::Euclid::div_euclid(&a, &b), || Uint::wrapping_div(a, b));
    nt_rem_euclid = |a: U, b: U| pair(|| num_traits::Euclid::rem_euclid(&a, &b), || Uint::wrapping_rem(a, b));
    nt_inv = |a: U| pair(|| num_traits::Inv::inv(a), || Uint::inv_ring(a));
    nt_mul_add = |a: U, b: U, c: U| pair(|| num_traits::MulAdd::mul_add(a, b, c), || Uint::wrapping_add(Uint::wrapping_mul(a, b), c));
    nt_mul_add_assign = |a: U, b: U, c: U| pair(|| { let mut x = a; num_traits::MulAddAssign::mul_add_assign(&mut x, b, c); x }, || Uint::wrapping_add(Uint::wrapping_mul(a, b), c));
    nt_saturating = |a: U, b: U| pair(|| (num_traits::Saturating::saturating_add(a, b), num_traits::Saturating::saturating_sub(a, b)), || (Uint::saturating_add(a, b), Uint::saturating_sub(a, b)));
    nt_saturating_add = |a: U, b: U| pair(|| num_traits::SaturatingAdd::saturating_add(&a, &b), || Uint::saturating_add(a, b));
    nt_saturating_sub = |a: U, b: U| pair(|| num_traits::SaturatingSub::saturating_sub(&a, &b), || Uint::saturating_sub(a, b));
    nt_saturating_mul = |a: U, b: U| pair(|| num_traits::SaturatingMul::saturating_mul(&a, &b), || Uint::saturating_mul(a, b));
    nt_wrapping_add = |a: U, b: U| pair(|| num_traits::WrappingAdd::wrapping_add(&a, &b), || Uint::wrapping_add(a, b));
    nt_wrapping_sub = |a: U, b: U| pair(|| num_traits::WrappingSub::wrapping_sub(&a, &b), || Uint::wrapping_sub(a, b));
    nt_wrapping_mul = |a: U, b: U| pair(|| num_traits::WrappingMul::wrapping_mul(&a, &b), || Uint::wrapping_mul(a, b));
    nt_wrapping_neg = |a: U| pair(|| num_traits::WrappingNeg::wrapping_neg(&a), || Uint::wrapping_neg(a));
    nt_wrapping_shl = |a: U, s: W| pair(|| num_traits::WrappingShl::wrapping_shl(&a, s as u32), || Uint::wrapping_shl(a, s as u32 as usize));
    nt_wrapping_shr = |a: U, s: W| pair(|| num_traits::WrappingShr::wrapping_shr(&a, s as u32), || Uint::wrapping_shr(a, s as u32 as usize));
    nt_overflowing_add = |a: U, b: U| pair(|| num_traits::ops::overflowing::OverflowingAdd::overflowing_add(&a, &b), || Uint::overflowing_add(a, b));
    nt_overflowing_sub = |a: U, b: U| pair(|| num_traits::ops::overflowing::OverflowingSub::overflowing_sub(&a, &b), || Uint::overflowing_sub(a, b));
    nt_overflowing_mul = |a: U, b: U| pair(|| num_traits::ops::overflowing::OverflowingMul::overflowing_mul(&a, &b), || Uint::overflowing_mul(a, b));
    nt_from_str_radix = |s: ST, r: W| pair(|| <Uint<B, L> as num_traits::Num>::from_str_radix(&s, r as u32), || Uint::<B, L>::from_str_radix(&s, r as u32 as u64));
    nt_pow = |a: U, e: U| pair(|| num_traits::Pow::pow(a, e), || Uint::pow(a, e));
    nt_to_primitive = |a: U| pair(|| (num_traits::ToPrimitive::to_i64(&a), num_traits::ToPrimitive::to_u64(&a), num_traits::ToPrimitive::to_i128(&a), num_traits::ToPrimitive::to_u128(&a)), || (i64::try_from(a).ok(), u64::try_from(a).ok(), i128::try_from(a).ok(), u128::try_from(a).ok()));
    // the narrow forms (provided by num-traits through the 64-bit methods today - or generated, if someone writes them out)
    nt_to_primitive_narrow = |a: U| pair(|| (num_traits::ToPrimitive::to_isize(&a), num_traits::ToPrimitive::to_i8(&a), num_traits::ToPrimitive::to_i16(&a), num_traits::ToPrimitive::to_i32(&a), num_traits::ToPrimitive::to_usize(&a), num_traits::ToPrimitive::to_u8(&a), (num_traits::ToPrimitive::to_u16(&a), num_traits::ToPrimitive::to_u32(&a))), || (isize::try_from(a).ok(), i8::try_from(a).ok(), i16::try_from(a).ok(), i32::try_from(a).ok(), usize::try_from(a).ok(), u8::try_from(a).ok(), (u16::try_from(a).ok(), u32::try_from(a).ok())));
    nt_from_narrow = |v: I| pair(|| (<Uint<B, L> as num_traits::FromPrimitive>::from_isize(v as isize), <Uint<B, L> as num_traits::FromPrimitive>::from_i8(v as i8), <Uint<B, L> as num_traits::FromPrimitive>::from_i16(v as i16), <Uint<B, L> as num_traits::FromPrimitive>::from_i32(v as i32), <Uint<B, L> as num_traits::FromPrimitive>::from_usize(v as usize), <Uint<B, L> as num_traits::FromPrimitive>::from_u8(v as u8), (<Uint<B, L> as num_traits::FromPrimitive>::from_u16(v as u16), <Uint<B, L> as num_traits::FromPrimitive>::from_u32(v as u32))), || (Uint::<B, L>::try_from(v as isize).ok(), Uint::<B, L>::try_from(v as i8).ok(), Uint::<B, L>::try_from(v as i16).ok(), Uint::<B, L>::try_from(v as i32).ok(), Uint::<B, L>::try_from(v as usize).ok(), Uint::<B, L>::try_from(v as u8).ok(), (Uint::<B, L>::try_from(v as u16).ok(), Uint::<B, L>::try_from(v as u32).ok())));
    nt_from_u = |v: W128| pair(|| (<Uint<B, L> as num_traits::FromPrimitive>::from_u64(v as u64), <Uint<B, L> as num_traits::FromPrimitive>::from_u128(v), <Uint<B, L> as num_traits::NumCast>::from(v), <Uint<B, L> as num_traits::NumCast>::from(v as u64)), || (Uint::<B, L>::try_from(v as u64).ok(), Uint::<B, L>::try_from(v).ok(), Uint::<B, L>::try_from(v).ok(), Uint::<B, L>::try_from(v as u64).ok()));
    nt_from_i = |v: I| pair(|| (<Uint<B, L> as num_traits::FromPrimitive>::from_i64(v as i64), <Uint<B, L> as num_traits::FromPrimitive>::from_i128(v), <Uint<B, L> as num_traits::NumCast>::from(v)), || (Uint::<B, L>::try_from(v as i64).ok(), Uint::<B, L>::try_from(v).ok(), Uint::<B, L>::try_from(v).ok()));
    pi_counts = |a: U| pair(|| (num_traits::PrimInt::count_ones(a), num_traits::PrimInt::count_zeros(a), num_traits::PrimInt::leading_zeros(a), num_traits::PrimInt::leading_ones(a), num_traits::PrimInt::trailing_zeros(a), num_traits::PrimInt::trailing_ones(a)), || (Uint::count_ones(&a), Uint::count_zeros(&a), Uint::leading_zeros(&a), Uint::leading_ones(&a), Uint::trailing_zeros(&a), Uint::trailing_ones(&a)));
    pi_rotate_left = |a: U, s: W| pair(|| num_traits::PrimInt::rotate_left(a, s as u32), || Uint::rotate_left(a, s as u32 as usize));
    pi_rotate_right = |a: U, s: W| pair(|| num_traits::PrimInt::rotate_right(a, s as u32), || Uint::rotate_right(a, s as u32 as usize));
    pi_signed_shl = |a: U, s: W| pair(|| num_traits::PrimInt::signed_shl(a, s as u32), || Uint::wrapping_shl(a, s as u32 as usize));
    pi_signed_shr = |a: U, s: W| pair(|| num_traits::PrimInt::signed_shr(a, s as u32), || Uint::arithmetic_shr(a, s as u32 as usize));
    pi_unsigned_shl = |a: U, s: W| pair(|| num_traits::PrimInt::unsigned_shl(a, s as u32), || Uint::wrapping_shl(a, s as u32 as usize));
    pi_unsigned_shr = |a: U, s: W| pair(|| num_traits::PrimInt::unsigned_shr(a, s as u32), || Uint::wrapping_shr(a, s as u32 as usize));
    pi_reverse_bits = |a: U| pair(|| num_traits::PrimInt::reverse_bits(a), || Uint::reverse_bits(a));
    pi_swap_bytes = |a: U| pair(|| (num_traits::PrimInt::swap_bytes(a), num_traits::PrimInt::to_be(a), num_traits::PrimInt::from_be(a), num_traits::PrimInt::to_le(a), num_traits::PrimInt::from_le(a)), || { let s = Uint::<B, L>::from_le_slice(&Uint::to_be_bytes_vec(&a)); (s, s, s, a, a) });
    x_pi_pow = |a: U, e: W| pair(|| num_traits::PrimInt::pow(a, e as u32), || Uint::<B, L>::try_from(e as u32).ok().map(|x| Uint::pow(a, x)));
    // ---- num-integer
    ni_div_floor = |a: U, b: U| pair(|| num_integer::Integer::div_floor(&a, &b), || Uint::wrapping_div(a, b));
    ni_mod_floor = |a: U, b: U| pair(|| num_integer::Integer::mod_floor(&a, &b), || Uint::wrapping_rem(a, b));
    ni_gcd = |a: U, b: U| pair(|| num_integer::Integer::gcd(&a, &b), || Uint::gcd(a, b));
    x_ni_lcm = |a: U, b: U| pair(|| num_integer::Integer::lcm(&a, &b), || Uint::lcm(a, b));
    ni_is_multiple_of = |a: U, b: U| pair(|| num_integer::Integer::is_multiple_of(&a, &b), || if Uint::is_zero(&b) { Uint::is_zero(&a) } else { Uint::is_zero(&Uint::wrapping_rem(a, b)) });
    ni_even_odd = |a: U| pair(|| (num_integer::Integer::is_even(&a), num_integer::Integer::is_odd(&a)), || (!Uint::bit(&a, 0), Uint::bit(&a, 0)));
    ni_div_rem = |a: U, b: U| pair(|| num_integer::Integer::div_rem(&a, &b), || Uint::div_rem(a, b));
    ni_div_ceil = |a: U, b: U| pair(|| num_integer::Integer::div_ceil(&a, &b), || Uint::div_ceil(a, b));
    ni_div_mod_floor = |a: U, b: U| pair(|| num_integer::Integer::div_mod_floor(&a, &b), || Uint::div_rem(a, b));
    ni_extended_gcd = |a: U, b: U| pair(|| { let e = num_integer::Integer::extended_gcd(&a, &b); (e.gcd, e.x, e.y) }, || { let (g, x, y, _) = Uint::gcd_extended(a, b); (g, x, y) });
    ni_inc_dec = |a: U| pair(|| { let (mut x, mut y) = (a, a); num_integer::Integer::inc(&mut x); num_integer::Integer::dec(&mut y); (x, y) }, || { let one = if B == 0 { Uint::<B, L>::ZERO } else { Uint::<B, L>::from(1u64) }; (Uint::wrapping_add(a, one), Uint::wrapping_sub(a, one)) });
    // provided methods of num_integer::Integer that ruint does not override
    x_ni_gcd_lcm = |a: U, b: U| pair(|| num_integer::Integer::gcd_lcm(&a, &b), || Uint::lcm(a, b).map(|l| (Uint::gcd(a, b), l)));
    ni_divides = |a: U, b: U| pair(|| { #[allow(deprecated)] let r = num_integer::Integer::divides(&a, &b); r }, || if Uint::is_zero(&b) { Uint::is_zero(&a) } else { Uint::is_zero(&Uint::wrapping_rem(a, b)) });
    x_ni_next_multiple_of = |a: U, b: U| pair(|| num_integer::Integer::next_multiple_of(&a, &b), || Uint::checked_next_multiple_of(a, b));
    ni_prev_multiple_of = |a: U, b: U| pair(|| num_integer::Integer::prev_multiple_of(&a, &b), || Uint::wrapping_sub(a, Uint::wrapping_rem(a, b)));
    // ---- subtle
    // the same comparisons with the two operands at DIFFERENT addresses modulo 16 (one behind a u64 in an aligned record,
    // one at the start of an aligned record, and neighbours in an array): results must not depend on where a value lives
    ct_cmp_layout = |a: U, b: U| pair(|| { #[repr(C, align(16))] struct Off<T>(u64, T); #[repr(C, align(16))] struct Al<T>(T); let x = std::hint::black_box(Off(7, a)); let y = std::hint::black_box(Al(b)); let arr = std::hint::black_box([a, b, a]); let f = |p: &Uint<B, L>, q: &Uint<B, L>| (ch(p.ct_eq(q)), ch(p.ct_gt(q)), ch(p.ct_lt(q)), p == q, p.cmp(q) as i8, hh(p) == hh(q)); (f(&x.1, &y.0), f(&y.0, &x.1), f(&arr[0], &arr[1]), f(&arr[1], &arr[2])) }, || { let g = |p: Uint<B, L>, q: Uint<B, L>| (p == q, p > q, p < q, p == q, p.cmp(&q) as i8, p == q); (g(a, b), g(b, a), g(a, b), g(b, a)) });
    ct_cmp = |a: U, b: U| pair(|| (ch(a.ct_eq(&b)), ch(a.ct_ne(&b)), ch(a.ct_gt(&b)), ch(a.ct_lt(&b))), || (a == b, a != b, a > b, a < b));
    ct_select = |a: U, b: U, c: BO| pair(|| { let x = Uint::conditional_select(&a, &b, Choice::from(c as u8)); let mut y = a; y.conditional_assign(&b, Choice::from(c as u8)); let (mut p, mut q) = (a, b); Uint::conditional_swap(&mut p, &mut q, Choice::from(c as u8)); (x, y, p, q) }, || if c { (b, b, b, a) } else { (a, a, a, b) });
    ct_negate = |a: U, c: BO| pair(|| { let mut x = a; x.conditional_negate(Choice::from(c as u8)); x }, || if c { Uint::wrapping_neg(a) } else { a });
    ct_bit = |a: U, i: N| pair(|| ch(a.bit_ct(i)), || Uint::bit(&a, i));
    // ---- zeroize
    zeroize = |a: U| pair(|| { let mut x = a; zeroize::Zeroize::zeroize(&mut x); let mut y = Bits::from(a); zeroize::Zeroize::zeroize(&mut y); (x, y) }, || (Uint::<B, L>::ZERO, Uint::<B, L>::ZERO));
}

dispatch_widths!(dispatch, call, Op; 0, 1, 2, 3, 4, 5, 6, 7, 8, 16, 63, 64, 65, 127, 128, 129, 192, 256, 257);

fn model(bits: usize, op: Op, args: &[V]) -> Expect {
    let lax = op.name().starts_with("x_");
    // documented exceptions
    let skip = match op {
        // bit_ct panics for index >= BITS by documentation while bit() returns false
        Op::ct_bit => args[1].as_n() as usize >= bits,
        // swap_bytes is documented as not well-defined when BITS % 8 != 0
        Op::pi_swap_bytes => bits % 8 != 0,
        _ => false,
    };
    if skip {
        return dont_care();
    }
    pred(if lax { "facade == inherent, or facade panics where the inherent method reports None/Err (signature cannot express it)" } else { "facade result == inherent result (same value / Option / flag; panic only where the inherent method panics)" }, move |g| {
        let V::T(t) = g else { return false };
        if t.len() != 2 {
            return false;
        }
        if lax {
            // the facade returns a bare value where the inherent method returns Option
            return match (&t[0], &t[1]) {
                (V::Panic, V::None | V::Err(_) | V::Panic) => true,
                (x, V::Some(y)) => x == &**y,
                (x, y) => x == y,
            };
        }
        t[0] == t[1]
    })
    .nt(true)
}

group_glue!();

const BIN: &[Op] = &[
    Op::nt_checked_add, Op::nt_checked_sub, Op::nt_checked_mul, Op::nt_checked_div, Op::nt_checked_rem, Op::nt_checked_div_euclid, Op::nt_checked_rem_euclid,
    Op::nt_div_euclid, Op::nt_rem_euclid, Op::nt_div_rem_euclid, Op::nt_checked_div_rem_euclid, Op::nt_saturating, Op::nt_saturating_add, Op::nt_saturating_sub, Op::nt_saturating_mul, Op::nt_wrapping_add,
    Op::nt_wrapping_sub, Op::nt_wrapping_mul, Op::nt_overflowing_add, Op::nt_overflowing_sub, Op::nt_overflowing_mul, Op::ni_div_floor, Op::ni_mod_floor,
    Op::x_ni_gcd_lcm, Op::ni_divides, Op::x_ni_next_multiple_of, Op::ni_prev_multiple_of,
    Op::bits_eq_hash, Op::ni_gcd, Op::x_ni_lcm, Op::ni_is_multiple_of, Op::ni_div_rem, Op::ni_div_ceil, Op::ni_div_mod_floor, Op::ni_extended_gcd, Op::ct_cmp, Op::ct_cmp_layout,
];
const BIN_SHAPED: &[Op] = &[Op::op_add, Op::op_sub, Op::op_mul, Op::op_div, Op::op_rem, Op::op_and, Op::op_or, Op::op_xor, Op::bits_and, Op::bits_or, Op::bits_xor];
const UN: &[Op] = &[
    Op::bits_reverse_bits, Op::bits_as_le_bytes, Op::bits_to_be_bytes_vec, Op::bits_to_le_bytes, Op::bits_to_be_bytes, Op::bits_leading_zeros, Op::bits_leading_ones,
    Op::bits_trailing_zeros, Op::bits_trailing_ones, Op::bits_from_limbs, Op::bits_as_limbs, Op::nt_is_zero, Op::nt_to_le_bytes, Op::nt_to_be_bytes, Op::nt_checked_neg,
    Op::nt_inv, Op::nt_wrapping_neg, Op::nt_one_zero_provided, Op::nt_to_ne_bytes, Op::nt_to_primitive, Op::nt_to_primitive_narrow, Op::pi_counts, Op::pi_reverse_bits, Op::pi_swap_bytes, Op::ni_even_odd, Op::ni_inc_dec, Op::zeroize, Op::bits_debug,
];
const SHIFT_N: &[Op] = &[
    Op::bits_checked_shl, Op::bits_checked_shr, Op::bits_overflowing_shl, Op::bits_overflowing_shr, Op::bits_wrapping_shl, Op::bits_wrapping_shr,
    Op::bits_rotate_left, Op::bits_rotate_right, Op::bits_index, Op::ct_bit,
];
const SHIFT_W: &[Op] = &[
    Op::nt_checked_shl, Op::nt_checked_shr, Op::nt_wrapping_shl, Op::nt_wrapping_shr, Op::pi_rotate_left, Op::pi_rotate_right, Op::pi_signed_shl, Op::pi_signed_shr,
    Op::pi_unsigned_shl, Op::pi_unsigned_shr, Op::x_pi_pow,
];

fn vu(l: &Limbs) -> V {
    V::U(l.clone())
}

fn c20(r: &Runner) {
    r.set_rule("each case = (width, facade entry point, operand tuple); the observed value is the pair (facade result, inherent result), both computed on the real code under separate catch_unwind; universes: S(B)^2 for B <= 8, (L(B;A5)+P(B))^2 at {16,63,64,65,127,128,129,192,256,257}; every shift / rotate / bit argument in 0..=B+65 plus u32 extremes; Choice in {0,1}; six impl shapes per binary operator; byte strings and texts for the constructor facades. every case is non-trivial");
    let ws: Vec<usize> = if r.is_thorough() { WIDTHS.to_vec() } else { vec![0, 1, 2, 4, 7, 8, 16, 63, 64, 65, 128, 129, 256, 257] };
    for &bits in &ws {
        let budget_bin = if r.is_thorough() { 700 } else { 160 };
        let (uv, d) = if bits <= 8 { (small_all(bits), format!("S({bits})")) } else { pick(bits, budget_bin, &[]) };
        // keep S(8)^2 in the quick tier too (256^2 pairs)
        r.universe(&format!("({d})^2 binary facades"), bits, uv.len(), |i, l| {
            let a = vu(&uv[i]);
            for b in &uv {
                let bv = vu(b);
                l.states(1);
                for &op in BIN {
                    exec(l, bits, op, &[a.clone(), bv.clone()]);
                }
                for &op in BIN_SHAPED {
                    for sh in 0..6 {
                        exec(l, bits, op, &[a.clone(), bv.clone(), V::n(sh)]);
                    }
                }
                exec(l, bits, Op::nt_pow, &[a.clone(), bv.clone()]);
                for c in [false, true] {
                    exec(l, bits, Op::ct_select, &[a.clone(), bv.clone(), V::B(c)]);
                }
            }
        });
        // pairs related by construction (a, !a, a+-1, -a, a/2, 2a, ...) over a larger unary universe
        let (rv, rd) = pick(bits, if r.is_thorough() { 20_000 } else { 2000 }, &[]);
        r.universe(&format!("{rd} x related operands: binary facades"), bits, rv.len(), |i, l| {
            let a = vu(&rv[i]);
            for b in related(bits, &rv[i]) {
                let bv = vu(&b);
                l.states(1);
                for &op in BIN {
                    exec(l, bits, op, &[a.clone(), bv.clone()]);
                }
                for &op in BIN_SHAPED {
                    for sh in 0..6 {
                        exec(l, bits, op, &[a.clone(), bv.clone(), V::n(sh)]);
                    }
                }
            }
        });
        // neighbouring Fibonacci numbers (and common multiples): the slowest inputs of Euclid's algorithm - a one-word fast
        // path with a step bound is sized against them (F(93) / F(92) needs 91 division steps)
        if bits >= 8 {
            let mut fib: Vec<BigUint> = vec![BigUint::from(1u32), BigUint::from(1u32)];
            while fib[fib.len() - 1].bits() as usize <= bits.min(130) {
                let nx = &fib[fib.len() - 1] + &fib[fib.len() - 2];
                fib.push(nx);
            }
            fib.pop();
            r.universe(&format!("neighbouring Fibonacci numbers up to {} bits and their multiples by 1, 2, 6: gcd facades", bits.min(130)), bits, fib.len().saturating_sub(1), |i, l| {
                for mul in [1u32, 2, 6] {
                    let (a, b) = (&fib[i] * mul, &fib[i + 1] * mul);
                    if b.bits() as usize > bits {
                        continue;
                    }
                    let (av, bv) = (V::U(to_limbs(&a, bits)), V::U(to_limbs(&b, bits)));
                    l.states(1);
                    for &op in &[Op::ni_gcd, Op::x_ni_lcm, Op::x_ni_gcd_lcm, Op::ni_extended_gcd, Op::ni_div_rem] {
                        exec(l, bits, op, &[av.clone(), bv.clone()]);
                        exec(l, bits, op, &[bv.clone(), av.clone()]);
                    }
                }
            });
        }
        // exact multiples (and their neighbours) of ordinary one-limb divisors, with zero limbs in every position
        let em = exact_multiples(bits, ORDINARY_DIVISORS);
        if !em.is_empty() {
            const DIVLIKE: &[Op] = &[Op::ni_is_multiple_of, Op::ni_div_rem, Op::ni_div_ceil, Op::ni_div_mod_floor, Op::ni_div_floor, Op::ni_mod_floor, Op::ni_gcd, Op::x_ni_lcm, Op::nt_checked_div, Op::nt_checked_rem, Op::nt_div_euclid, Op::nt_rem_euclid, Op::x_ni_gcd_lcm, Op::ni_divides, Op::x_ni_next_multiple_of, Op::ni_prev_multiple_of];
            r.universe(&format!("exact multiples n = [solved, {{0,1,g1,g2}}..] of {} ordinary one-limb divisors, +-1", ORDINARY_DIVISORS.len()), bits, em.len(), |i, l| {
                let (n, d) = (vu(&em[i].0), vu(&em[i].1));
                l.states(1);
                for &op in DIVLIKE {
                    exec(l, bits, op, &[n.clone(), d.clone()]);
                }
                for sh in 0..6 {
                    exec(l, bits, Op::op_div, &[n.clone(), d.clone(), V::n(sh)]);
                    exec(l, bits, Op::op_rem, &[n.clone(), d.clone(), V::n(sh)]);
                }
            });
        }
        // ternary: mul_add on a thinner universe
        let (tv, td) = if bits <= 4 { (small_all(bits), format!("S({bits})")) } else { pick(bits, 24, &[]) };
        r.universe(&format!("({td})^3 mul_add, sequences"), bits, tv.len(), |i, l| {
            let a = vu(&tv[i]);
            for b in &tv {
                for c in &tv {
                    l.states(1);
                    exec(l, bits, Op::nt_mul_add, &[a.clone(), vu(b), vu(c)]);
                    exec(l, bits, Op::nt_mul_add_assign, &[a.clone(), vu(b), vu(c)]);
                    let s = V::L(vec![a.clone(), vu(b), vu(c)]);
                    for rf in 0..5usize {
                        exec(l, bits, Op::sum, &[s.clone(), V::n(rf)]);
                        exec(l, bits, Op::product, &[s.clone(), V::n(rf)]);
                    }
                }
            }
            // long sequences (a block-wise reduction is wrong only when the length is not a multiple of its block): this value
            // and its neighbours in the universe, repeated to every length in a list
            for len in [4usize, 7, 8, 9, 12, 15, 16, 17, 31, 33, 64, 65, 100, 257, 513] {
                let s = V::L((0..len).map(|k| vu(&tv[(i + k * k) % tv.len()])).collect());
                for rf in 0..5usize {
                    exec(l, bits, Op::sum, &[s.clone(), V::n(rf)]);
                    exec(l, bits, Op::product, &[s.clone(), V::n(rf)]);
                }
                exec(l, bits, Op::sum_gap, &[s.clone()]);
            }
            for rf in 0..5usize {
                exec(l, bits, Op::sum, &[V::L(vec![]), V::n(rf)]);
                exec(l, bits, Op::product, &[V::L(vec![]), V::n(rf)]);
                exec(l, bits, Op::sum, &[V::L(vec![a.clone()]), V::n(rf)]);
                exec(l, bits, Op::product, &[V::L(vec![a.clone()]), V::n(rf)]);
            }
        });
        // unary and indexed
        let (vv, vd) = pick(bits, if r.is_thorough() { 8000 } else { 1000 }, &[]);
        r.universe(&format!("{vd}: unary facades, shifts / rotations / bit index 0..={}", bits + 65), bits, vv.len(), |i, l| {
            let a = vu(&vv[i]);
            l.states(1);
            for &op in UN {
                exec(l, bits, op, &[a.clone()]);
            }
            for k in 0..8 {
                exec(l, bits, Op::op_alias, &[a.clone(), V::n(k)]);
            }
            for sh in 0..2 {
                exec(l, bits, Op::op_neg, &[a.clone(), V::n(sh)]);
                exec(l, bits, Op::op_not, &[a.clone(), V::n(sh)]);
                exec(l, bits, Op::bits_not, &[a.clone(), V::n(sh)]);
            }
            for c in [false, true] {
                exec(l, bits, Op::ct_negate, &[a.clone(), V::B(c)]);
            }
            let mut amounts: Vec<u64> = (0..=(bits as u64 + 65)).collect();
            amounts.extend([u32::MAX as u64, u32::MAX as u64 - 1, 1 << 31, (1u64 << 32) + 1, 1u64 << 32]);
            for &s in &amounts {
                l.states(1);
                for &op in SHIFT_N {
                    exec(l, bits, op, &[a.clone(), V::n(s as usize)]);
                }
                for &op in SHIFT_W {
                    exec(l, bits, op, &[a.clone(), V::N(s as u128)]);
                }
                if s <= bits as u64 + 66 {
                    for t in 0..10usize {
                        if s as u128 > TY_MAX[t] {
                            continue;
                        }
                        for sh in 0..4 {
                            exec(l, bits, Op::op_shl_prim, &[a.clone(), V::n(t), V::N(s as u128), V::n(sh)]);
                            exec(l, bits, Op::op_shr_prim, &[a.clone(), V::n(t), V::N(s as u128), V::n(sh)]);
                        }
                    }
                }
                if s <= bits as u64 + 2 || s % 7 == 0 {
                    for sh in 0..6 {
                        exec(l, bits, Op::bits_shl, &[a.clone(), V::n(s as usize), V::n(sh)]);
                        exec(l, bits, Op::bits_shr, &[a.clone(), V::n(s as usize), V::n(sh)]);
                    }
                }
            }
        });
        // shifts by Uint-typed amounts of any magnitude
        if bits > 0 {
            let mp = num_bigint::BigUint::from(1u32) << bits;
            let mut am: Vec<Limbs> = vec![];
            for s in [0usize, 1, 2, 63, 64, 65, bits - 1, bits, bits + 1, bits / 2] {
                let b = num_bigint::BigUint::from(s);
                if b < mp {
                    am.push(to_limbs(&b, bits));
                }
            }
            if bits <= 8 {
                am.extend(small_all(bits));
            } else {
                am.extend(limb_product(bits, A3).unwrap_or_default());
                for j in 1..nlimbs(bits) {
                    for low in [0u64, 1, 5] {
                        let mut w = vec![0u64; nlimbs(bits)];
                        w[0] = low;
                        w[j] = 1;
                        if w[nlimbs(bits) - 1] & !mask(bits) == 0 {
                            am.push(w);
                        }
                    }
                }
            }
            am.sort();
            am.dedup();
            let pv = if bits <= 8 { small_all(bits) } else { pow2_sparse(bits) };
            r.universe(&format!("{} values x {} Uint-typed shift amounts x 4 shapes", pv.len(), am.len()), bits, pv.len(), |i, l| {
                let a = vu(&pv[i]);
                for s in &am {
                    l.states(1);
                    for sh in 0..4 {
                        exec(l, bits, Op::op_shl_uint, &[a.clone(), vu(s), V::n(sh)]);
                        exec(l, bits, Op::op_shr_uint, &[a.clone(), vu(s), V::n(sh)]);
                    }
                }
            });
        }
        // constructors from bytes / text / primitives
        let nb = (bits + 7) / 8;
        let al = [0x00u8, 0x01, 0x7f, 0x80, 0xff];
        let mut strs: Vec<Vec<u8>> = vec![vec![]];
        for n in 1..=nb + 2 {
            for i in 0..n {
                for &x in &al {
                    for &y in &al {
                        let mut s = vec![x; n];
                        s[i] = y;
                        strs.push(s);
                    }
                }
            }
        }
        strs.sort();
        strs.dedup();
        r.universe(&format!("{} byte strings of length 0..={} for the constructor facades", strs.len(), nb + 2), bits, strs.len(), |i, l| {
            let s = V::Bytes(strs[i].clone());
            l.states(1);
            for op in [Op::bits_try_from_be_slice, Op::bits_try_from_le_slice, Op::x_nt_from_le_bytes, Op::x_nt_from_be_bytes, Op::x_nt_from_ne_bytes] {
                exec(l, bits, op, &[s.clone()]);
            }
            if strs[i].len() == nb {
                exec(l, bits, Op::bits_from_be_bytes, &[s.clone()]);
                exec(l, bits, Op::bits_from_le_bytes, &[s.clone()]);
            }
        });
        let mut texts: Vec<String> = ["", "255", "256", "18446744073709551615", "18446744073709551616", "0x1", "340282366920938463463374607431768211455", "+18446744073709551615", "+255", "-255", "+0x1"].iter().map(|s| s.to_string()).collect();
        // every string of length <= 2 over a 26-character set (digits of every class, both signs, separators, a
        // multi-byte character), and length 3 with a sign or separator in one position
        let cs: Vec<char> = "0179afgzAFZ_+-/ .x=\ré€😀\u{661}\u{ff11}".chars().collect();
        for &a in &cs {
            texts.push(a.to_string());
            for &b in &cs {
                texts.push([a, b].iter().collect());
                for &c in &['+', '-', '_', '1'] {
                    texts.push([c, a, b].iter().collect());
                    texts.push([a, c, b].iter().collect());
                    texts.push([a, b, c].iter().collect());
                }
            }
        }
        texts.sort();
        texts.dedup();
        r.universe(&format!("{} texts x radix 0..=66 for from_str_radix facades", texts.len()), bits, texts.len(), |i, l| {
            for radix in (0..=66u64).chain([255, 256, (1 << 32) + 10]) {
                l.states(1);
                if radix == 0 {
                    for pre in ["", "0x", "0o", "0b", "0X"] {
                        exec(l, bits, Op::bits_from_str, &[V::S(format!("{pre}{}", texts[i]))]);
                    }
                }
                exec(l, bits, Op::bits_from_str_radix, &[V::s(&texts[i]), V::N(radix as u128)]);
                exec(l, bits, Op::nt_from_str_radix, &[V::s(&texts[i]), V::N(radix as u128)]);
            }
        });
        let mut us: Vec<u128> = vec![0, u128::MAX];
        for k in 0..128u32 {
            for dlt in [-1i128, 0, 1] {
                us.push((1u128 << k).wrapping_add(dlt as u128));
            }
        }
        us.sort();
        us.dedup();
        r.universe("FromPrimitive / NumCast on 2^k + d (u128 and i128)", bits, us.len(), |i, l| {
            l.states(1);
            exec(l, bits, Op::nt_from_u, &[V::N(us[i])]);
            exec(l, bits, Op::nt_from_i, &[V::I(us[i] as i128)]);
            exec(l, bits, Op::nt_from_i, &[V::I((us[i] as i128).wrapping_neg())]);
            exec(l, bits, Op::nt_from_narrow, &[V::I(us[i] as i128)]);
            exec(l, bits, Op::nt_from_narrow, &[V::I((us[i] as i128).wrapping_neg())]);
        });
        r.universe_seq("Zero / One / Bounded constants", bits, |l| {
            l.states(1);
            exec(l, bits, Op::nt_zero, &[]);
        });
    }
}

fn main() {
    let (prop, tier, seed, replay_path) = args_env();
    if let Some(p) = replay_path {
        std::process::exit(replay(&p));
    }
    let r = Runner::new("mc_facade", &prop, &tier, seed);
    r.assume("the reference is the inherent method itself (called by path), as the property states; C01-C13 decide whether the inherent methods are right");
    r.assume("documented exceptions: bit_ct panics for index >= BITS while bit() returns false; PrimInt::swap_bytes (and to_be/from_be) is documented as not well-defined when BITS % 8 != 0; PrimInt::pow(u32) is compared only where the exponent fits the width");
    match prop.as_str() {
        "C20" => c20(&r),
        _ => {
            eprintln!("mc_facade: unknown property '{prop}' (C20)");
            std::process::exit(2);
        }
    }
    std::process::exit(r.finish());
}
