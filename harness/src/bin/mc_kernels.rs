//! Group `kernels`: C11 (Montgomery), C12 (gcd/lcm/extended gcd/Lehmer), C14 (division kernels),
//! C15 (multiply/add/shift/compare kernels).
#![allow(clippy::all)]

use num_bigint::{BigInt, BigUint};
use num_integer::Integer;
use num_traits::{One, Zero};
use ruint::algorithms as alg;
use ruint::algorithms::LehmerMatrix as M;
use ruint::Uint;
use vharness::*;

fn arrn<const N: usize>(v: &[u64]) -> [u64; N] {
    let mut a = [0u64; N];
    a.copy_from_slice(v);
    a
}
fn mat(m: M) -> V {
    V::T(vec![V::N(m.0 as u128), V::N(m.1 as u128), V::N(m.2 as u128), V::N(m.3 as u128), V::B(m.4)])
}
fn w128(l: &[u64]) -> u128 {
    (l[0] as u128) | ((l[1] as u128) << 64)
}

// ------------------------------------------------------------------ width-generic entry points
define_ops! {
    // C11 (LIMBS = N)
    alg_mul_redc = |a: LS, b: LS, m: LS, inv: W| alg::mul_redc::<L>(arrn::<L>(&a), arrn::<L>(&b), arrn::<L>(&m), inv);
    alg_square_redc = |a: LS, m: LS, inv: W| alg::square_redc::<L>(arrn::<L>(&a), arrn::<L>(&m), inv);
    uint_mul_redc = |a: U, b: U, m: U, inv: W| a.mul_redc(b, m, inv);
    uint_square_redc = |a: U, m: U, inv: W| a.square_redc(m, inv);
    // C12
    gcd = |a: U, b: U| a.gcd(b);
    lcm = |a: U, b: U| a.lcm(b);
    gcd_extended = |a: U, b: U| a.gcd_extended(b);
    alg_gcd = |a: U, b: U| alg::gcd(a, b);
    alg_gcd_extended = |a: U, b: U| alg::gcd_extended(a, b);
    lehmer_from_apply = |a: U, b: U| { let m = M::from(a, b); let (mut c, mut d) = (a, b); m.apply(&mut c, &mut d); (mat(m), c, d) };
}

dispatch_widths!(dispatch, call, Op;
    0, 1, 2, 3, 4, 5, 6, 7, 8, 9, 10, 12, 16, 32, 63, 64, 65, 96, 127, 128, 129, 191, 192, 193, 255, 256, 257, 319, 320, 321, 383, 384, 385, 447, 448, 449, 511, 512, 513, 575, 576, 577, 639, 640, 641, 703, 704, 705, 767, 768, 769, 831, 832, 833, 895, 896, 897, 959, 960, 961, 1023, 1024, 1088, 1152, 1216, 1344);

mod k {
    //! width-independent kernels
    use super::*;
    define_ops! {
        // C12 word-level matrices
        from_u64_apply = |r0: W, r1: W| { let m = M::from_u64(r0, r1); let (c, d) = m.apply_u128(r0 as u128, r1 as u128); (mat(m), u128w(c), u128w(d)) };
        from_u64_prefix_apply = |a: LS, b: LS| { let m = M::from_u64_prefix(a[1], b[1]); let (c, d) = m.apply_u128(w128(&a), w128(&b)); (mat(m), u128w(c), u128w(d)) };
        from_u128_prefix_apply = |a: LS, b: LS| { let m = M::from_u128_prefix(w128(&a), w128(&b)); let (c, d) = m.apply_u128(w128(&a), w128(&b)); (mat(m), u128w(c), u128w(d)) };
        // matrices as [m0, m1, m2, m3, flag]: the product, and the product applied to a pair of u128
        compose = |x: LS, y: LS| mat(M(x[0], x[1], x[2], x[3], x[4] != 0).compose(M(y[0], y[1], y[2], y[3], y[4] != 0)));
        compose_apply = |x: LS, y: LS, a: LS, b: LS| { let m = M(x[0], x[1], x[2], x[3], x[4] != 0).compose(M(y[0], y[1], y[2], y[3], y[4] != 0)); let (c, d) = m.apply_u128(w128(&a), w128(&b)); (u128w(c), u128w(d)) };
        // C14
        div = |n: LS, d: LS| { alg::div(&mut n, &mut d); (n, d) };
        div_nxm = |n: LS, d: LS| { alg::div::div_nxm(&mut n, &mut d); (n, d) };
        div_nxm_normalized = |n: LS, d: LS| { alg::div::div_nxm_normalized(&mut n, &d); n };
        div_nx1 = |n: LS, d: W| { let r = alg::div::div_nx1(&mut n, d); (n, r) };
        div_nx1_normalized = |n: LS, d: W| { let r = alg::div::div_nx1_normalized(&mut n, d); (n, r) };
        div_nx2 = |n: LS, d: LS| { let r = alg::div::div_nx2(&mut n, w128(&d)); (n, u128w(r)) };
        div_nx2_normalized = |n: LS, d: LS| { let r = alg::div::div_nx2_normalized(&mut n, w128(&d)); (n, u128w(r)) };
        div_2x1 = |u: LS, d: W| alg::div::div_2x1(w128(&u), d, alg::div::reciprocal(d));
        div_2x1_mg10 = |u: LS, d: W| alg::div::div_2x1_mg10(w128(&u), d, alg::div::reciprocal_ref(d));
        div_2x1_ref = |u: LS, d: W| alg::div::div_2x1_ref(w128(&u), d);
        div_3x2 = |n: LS, d: LS| { let r = alg::div::div_3x2(w128(&n[1..]), n[0], w128(&d), alg::div::reciprocal_2(w128(&d))); (r.0, u128w(r.1)) };
        div_3x2_ref = |n: LS, d: LS| alg::div::div_3x2_ref(w128(&n[1..]), n[0], w128(&d));
        reciprocal = |d: W| alg::div::reciprocal(d);
        reciprocal_mg10 = |d: W| alg::div::reciprocal_mg10(d);
        reciprocal_ref = |d: W| alg::div::reciprocal_ref(d);
        reciprocal_2 = |d: LS| alg::div::reciprocal_2(w128(&d));
        reciprocal_2_mg10 = |d: LS| alg::div::reciprocal_2_mg10(w128(&d));
        // C15
        addmul = |l: LS, a: LS, b: LS| { let o = alg::addmul(&mut l, &a, &b); (l, o) };
        addmul_n = |l: LS, a: LS, b: LS| { alg::addmul_n(&mut l, &a, &b); l };
        // both operands the SAME slice (squaring): an implementation may dispatch on pointer identity
        addmul_alias = |l: LS, a: LS| { let o = alg::addmul(&mut l, &a, &a); (l, o) };
        addmul_n_alias = |l: LS, a: LS| { alg::addmul_n(&mut l, &a, &a); l };
        mul_nx1 = |l: LS, w: W| { let c = alg::mul_nx1(&mut l, w); (l, c) };
        addmul_nx1 = |l: LS, a: LS, w: W| { let c = alg::addmul_nx1(&mut l, &a, w); (l, c) };
        submul_nx1 = |l: LS, a: LS, w: W| { let c = alg::submul_nx1(&mut l, &a, w); (l, c) };
        add_nx1 = |l: LS, w: W| { let c = alg::add_nx1(&mut l, w); (l, c) };
        adc_n = |l: LS, a: LS, c: W| { let c = alg::adc_n(&mut l, &a, c); (l, c) };
        sbb_n = |l: LS, a: LS, c: W| { let c = alg::sbb_n(&mut l, &a, c); (l, c) };
        adc = |a: W, b: W, c: W| alg::adc(a, b, c);
        sbb = |a: W, b: W, c: W| alg::sbb(a, b, c);
        carrying_add = |a: W, b: W, c: BO| alg::carrying_add(a, b, c);
        borrowing_sub = |a: W, b: W, c: BO| alg::borrowing_sub(a, b, c);
        shift_left_small = |l: LS, s: N| { let o = alg::shift_left_small(&mut l, s); (l, o) };
        shift_right_small = |l: LS, s: N| { let o = alg::shift_right_small(&mut l, s); (l, o) };
        cmp = |a: LS, b: LS| alg::cmp(&a, &b);
        cmp_alias = |a: LS| alg::cmp(&a, &a);
        // the two slices as WINDOWS into larger buffers at limb offsets oa / ob (different addresses modulo 16)
        cmp_windows = |a: LS, b: LS, oa: N, ob: N| { let mut x = vec![0x1111_1111_1111_1111u64; oa]; x.extend(&a); x.push(7); let mut y = vec![0x2222_2222_2222_2222u64; ob]; y.extend(&b); y.push(9); let r = alg::cmp(&x[oa..oa + a.len()], &y[ob..ob + b.len()]); (r, (x[oa..].as_ptr() as usize % 16) != (y[ob..].as_ptr() as usize % 16)) };
    }
    pub fn dispatch(_bits: usize, op: Op, args: &[V]) -> V {
        call::<0, 0, 0>(op, args)
    }
    pub use super::kmodel as model;
    group_glue!();
}

fn u(v: &BigUint, bits: usize) -> V {
    V::U(to_limbs(v, bits))
}
fn un(v: &BigUint, n: usize) -> V {
    V::U(to_limbs_n(v, n))
}
fn vu(l: &Limbs) -> V {
    V::U(l.clone())
}
fn bigv(v: &V) -> BigUint {
    big(v.limbs())
}
fn word(v: &BigUint) -> u64 {
    assert!(v.bits() <= 64, "harness: word overflow");
    v.iter_u64_digits().next().unwrap_or(0)
}

/// -m^-1 mod 2^64 for odd m (Newton iteration), computed by the harness, not by ruint.
fn neg_inv64(m0: u64) -> u64 {
    let mut x: u64 = 1;
    for _ in 0..7 {
        x = x.wrapping_mul(2u64.wrapping_sub(m0.wrapping_mul(x)));
    }
    debug_assert_eq!(m0.wrapping_mul(x), 1);
    x.wrapping_neg()
}

fn lehmer_pred(a: BigUint, b: BigUint, word_bits: usize) -> Expect {
    // got = T[matrix, c, d]
    let g = a.gcd(&b);
    pred("identity (pair unchanged), or (c, d) with c >= d, d < b and gcd(c, d) = gcd(a, b)", move |got| {
        let V::T(t) = got else { return false };
        if t.len() != 3 {
            return false;
        }
        let (c, d) = (bigv(&t[1]), bigv(&t[2]));
        let ident = t[0] == mat(M::IDENTITY);
        let _ = word_bits;
        if ident {
            return c == a && d == b;
        }
        c >= d && d < b && c.gcd(&d) == g
    })
}

fn model(bits: usize, op: Op, args: &[V]) -> Expect {
    use Op::*;
    let m = pow2(bits);
    match op {
        alg_mul_redc | alg_square_redc | uint_mul_redc | uint_square_redc => {
            let sq = matches!(op, alg_square_redc | uint_square_redc);
            let a = bigv(&args[0]);
            let (b, md) = if sq { (a.clone(), bigv(&args[1])) } else { (bigv(&args[1]), bigv(&args[2])) };
            let n = args[0].limbs().len();
            if n == 0 {
                return is(V::U(vec![]));
            }
            // R^-1 mod m is the same for every operand pair of a modulus: cache the last one per thread
            thread_local! {
                static RINV: std::cell::RefCell<(Vec<u64>, BigUint)> = std::cell::RefCell::new((vec![], BigUint::zero()));
            }
            let mkey: Vec<u64> = (if sq { &args[1] } else { &args[2] }).limbs().to_vec();
            let rinv = RINV.with(|c| {
                let mut c = c.borrow_mut();
                if c.0 != mkey {
                    let r = pow2(64 * n);
                    *c = (mkey.clone(), (&r % &md).modinv(&md).expect("harness: R invertible modulo odd m"));
                }
                c.1.clone()
            });
            let e = (&a * &b * rinv) % &md;
            is(un(&e, n)).nt(true)
        }
        gcd | alg_gcd => {
            let (a, b) = (bigv(&args[0]), bigv(&args[1]));
            is(u(&a.gcd(&b), bits)).nt(!a.is_zero() && !b.is_zero() && a != b)
        }
        lcm => {
            let (a, b) = (bigv(&args[0]), bigv(&args[1]));
            let g = a.gcd(&b);
            let l = if g.is_zero() { BigUint::zero() } else { &a * &b / &g };
            is(if l < m { V::some(u(&l, bits)) } else { V::None }).nt(l >= m || g > BigUint::one())
        }
        gcd_extended | alg_gcd_extended => {
            let (a, b) = (bigv(&args[0]), bigv(&args[1]));
            let g = a.gcd(&b);
            let nt = !a.is_zero() && !b.is_zero();
            pred("(g, x, y, sign) with g = gcd(a, b) and a*x - b*y = g (sign) resp. b*y - a*x = g (!sign), modulo 2^BITS", move |got| {
                let V::T(t) = got else { return false };
                if t.len() != 4 {
                    return false;
                }
                let (g2, x, y) = (bigv(&t[0]), bigv(&t[1]), bigv(&t[2]));
                let V::B(sign) = t[3] else { return false };
                if g2 != g {
                    return false;
                }
                let mm = pow2(bits);
                let ax = (&a * &x) % &mm;
                let by = (&b * &y) % &mm;
                let lhs = if sign { (&mm + ax - by) % &mm } else { (&mm + by - ax) % &mm };
                lhs == &g % &mm
            })
            .nt(nt)
        }
        lehmer_from_apply => {
            let (a, b) = (bigv(&args[0]), bigv(&args[1]));
            lehmer_pred(a, b, bits).nt(true)
        }
    }
}

pub fn kmodel(_bits: usize, op: k::Op, args: &[V]) -> Expect {
    use k::Op::*;
    let b64 = pow2(64);
    match op {
        from_u64_apply => {
            let (a, b) = (BigUint::from(args[0].as_n()), BigUint::from(args[1].as_n()));
            let g = a.gcd(&b);
            if b.is_zero() {
                return is(V::T(vec![mat(M::IDENTITY), un(&a, 2), un(&b, 2)]));
            }
            // full Euclid on one word: ends at (gcd, 0)
            pred("matrix maps (r0, r1) to (gcd, 0)", move |got| {
                let V::T(t) = got else { return false };
                t.len() == 3 && bigv(&t[1]) == g && bigv(&t[2]).is_zero()
            })
            .nt(true)
        }
        from_u64_prefix_apply | from_u128_prefix_apply => lehmer_pred(bigv(&args[0]), bigv(&args[1]), 128).nt(true),
        compose | compose_apply => {
            let (x, y) = (args[0].limbs(), args[1].limbs());
            let e = |i: usize, j: usize, k: usize, l: usize| x[i] as u128 * y[j] as u128 + x[k] as u128 * y[l] as u128;
            let p = [e(0, 0, 1, 2), e(0, 1, 1, 3), e(2, 0, 3, 2), e(2, 1, 3, 3)];
            if p.iter().any(|v| *v > u64::MAX as u128) {
                // the entries of the product do not fit a word: outside the contract
                return dont_care();
            }
            let flag = (x[4] != 0) ^ !(y[4] != 0);
            if op == compose {
                return is(V::T(vec![V::N(p[0]), V::N(p[1]), V::N(p[2]), V::N(p[3]), V::B(flag)])).nt(true);
            }
            // apply y, then x, modulo 2^128
            let md = pow2(128);
            let ap = |mm: &[u64], a: &BigUint, b: &BigUint| -> (BigUint, BigUint) {
                let t = |k: usize, v: &BigUint| (BigUint::from(mm[k]) * v) % &md;
                let sub = |p: BigUint, q: BigUint| (&md + p - q) % &md;
                if mm[4] != 0 { (sub(t(0, a), t(1, b)), sub(t(3, b), t(2, a))) } else { (sub(t(1, b), t(0, a)), sub(t(2, a), t(3, b))) }
            };
            let (a, b) = (bigv(&args[2]), bigv(&args[3]));
            let (c1, d1) = ap(y, &a, &b);
            let (c2, d2) = ap(x, &c1, &d1);
            is(V::T(vec![un(&c2, 2), un(&d2, 2)])).nt(true)
        }
        div | div_nxm | div_nxm_normalized => {
            let (n, d) = (bigv(&args[0]), bigv(&args[1]));
            let (nl, dl) = (args[0].limbs().len(), args[1].limbs().len());
            if d.is_zero() {
                return is(V::Panic).nt(true);
            }
            let (q, r) = n.div_rem(&d);
            let nt = n >= d && !r.is_zero();
            match op {
                div | div_nxm => is(V::T(vec![un(&q, nl), un(&r, dl)])),
                _ => {
                    // remainder in the low divisor.len() limbs, quotient above
                    let mut e = to_limbs_n(&r, dl);
                    e.extend(to_limbs_n(&q, nl - dl));
                    is(V::U(e))
                }
            }
            .nt(nt)
        }
        div_nx1 | div_nx1_normalized => {
            let n = bigv(&args[0]);
            let d = BigUint::from(args[1].as_n());
            let (q, r) = n.div_rem(&d);
            is(V::T(vec![un(&q, args[0].limbs().len()), V::N(word(&r) as u128)])).nt(true)
        }
        div_nx2 | div_nx2_normalized => {
            let (n, d) = (bigv(&args[0]), bigv(&args[1]));
            let (q, r) = n.div_rem(&d);
            is(V::T(vec![un(&q, args[0].limbs().len()), un(&r, 2)])).nt(true)
        }
        div_2x1 | div_2x1_mg10 | div_2x1_ref => {
            let uu = bigv(&args[0]);
            let d = BigUint::from(args[1].as_n());
            let (q, r) = uu.div_rem(&d);
            is(V::T(vec![V::N(word(&q) as u128), V::N(word(&r) as u128)])).nt(true)
        }
        div_3x2 | div_3x2_ref => {
            let (n, d) = (bigv(&args[0]), bigv(&args[1]));
            let (q, r) = n.div_rem(&d);
            if op == div_3x2 {
                is(V::T(vec![V::N(word(&q) as u128), un(&r, 2)]))
            } else {
                is(V::N(word(&q) as u128))
            }
            .nt(true)
        }
        reciprocal | reciprocal_mg10 | reciprocal_ref => {
            let d = BigUint::from(args[0].as_n());
            let e = (pow2(128) - 1u32) / d - &b64;
            is(V::N(word(&e) as u128)).nt(true)
        }
        reciprocal_2 | reciprocal_2_mg10 => {
            let d = bigv(&args[0]);
            let e = (pow2(192) - 1u32) / d - &b64;
            is(V::N(word(&e) as u128)).nt(true)
        }
        addmul => {
            let (l, a, b) = (bigv(&args[0]), bigv(&args[1]), bigv(&args[2]));
            let n = args[0].limbs().len();
            let md = pow2(64 * n);
            let t = &l + &a * &b;
            let short = args[1].limbs().len() + args[2].limbs().len() > n;
            is(V::T(vec![un(&(&t % &md), n), V::B(t >= md)])).nt(t >= md || short)
        }
        addmul_alias => {
            let (l, a) = (bigv(&args[0]), bigv(&args[1]));
            let n = args[0].limbs().len();
            let md = pow2(64 * n);
            let t = &l + &a * &a;
            is(V::T(vec![un(&(&t % &md), n), V::B(t >= md)])).nt(true)
        }
        addmul_n_alias => {
            let (l, a) = (bigv(&args[0]), bigv(&args[1]));
            let n = args[0].limbs().len();
            let md = pow2(64 * n);
            is(un(&((&l + &a * &a) % &md), n)).nt(true)
        }
        addmul_n => {
            let (l, a, b) = (bigv(&args[0]), bigv(&args[1]), bigv(&args[2]));
            let n = args[0].limbs().len();
            let md = pow2(64 * n);
            is(un(&((&l + &a * &b) % &md), n)).nt(true)
        }
        mul_nx1 | add_nx1 => {
            let l = bigv(&args[0]);
            let w = BigUint::from(args[1].as_n());
            let n = args[0].limbs().len();
            let md = pow2(64 * n);
            let t = if op == mul_nx1 { &l * &w } else { &l + &w };
            is(V::T(vec![un(&(&t % &md), n), V::N(word(&(&t >> (64 * n))) as u128)])).nt(t >= md)
        }
        addmul_nx1 => {
            let (l, a) = (bigv(&args[0]), bigv(&args[1]));
            let w = BigUint::from(args[2].as_n());
            let n = args[0].limbs().len();
            let md = pow2(64 * n);
            let t = &l + &a * &w;
            is(V::T(vec![un(&(&t % &md), n), V::N(word(&(&t >> (64 * n))) as u128)])).nt(t >= md)
        }
        submul_nx1 => {
            let (l, a) = (bigv(&args[0]), bigv(&args[1]));
            let w = BigUint::from(args[2].as_n());
            let n = args[0].limbs().len();
            let md = pow2(64 * n);
            let sub = &a * &w;
            let kk = if sub <= l { BigUint::zero() } else { (&sub - &l + &md - 1u32) / &md };
            let res = (&l + &kk * &md) - &sub;
            is(V::T(vec![un(&res, n), V::N(word(&kk) as u128)])).nt(!kk.is_zero())
        }
        adc_n => {
            let (l, a) = (bigv(&args[0]), bigv(&args[1]));
            let c = BigUint::from(args[2].as_n());
            let n = args[0].limbs().len();
            let md = pow2(64 * n);
            let t = &l + &a + &c;
            is(V::T(vec![un(&(&t % &md), n), V::N(word(&(&t >> (64 * n))) as u128)])).nt(t >= md)
        }
        sbb_n => {
            let (l, a) = (bigv(&args[0]), bigv(&args[1]));
            let c = BigUint::from(args[2].as_n());
            let n = args[0].limbs().len();
            let md = pow2(64 * n);
            let sub = &a + &c;
            let kk = if sub <= l { BigUint::zero() } else { (&sub - &l + &md - 1u32) / &md };
            let res = (&l + &kk * &md) - &sub;
            is(V::T(vec![un(&res, n), V::N(word(&kk) as u128)])).nt(!kk.is_zero())
        }
        adc | carrying_add => {
            let c = if op == adc { args[2].as_n() } else { args[2].as_b() as u128 };
            let t = args[0].as_n() + args[1].as_n() + c;
            is(V::T(vec![V::N(t & (u64::MAX as u128)), if op == adc { V::N(t >> 64) } else { V::B(t >> 64 != 0) }])).nt(t >> 64 != 0)
        }
        sbb | borrowing_sub => {
            let c = if op == sbb { args[2].as_n() } else { args[2].as_b() as u128 };
            let sub = args[1].as_n() + c;
            let l = args[0].as_n();
            let md = 1u128 << 64;
            let kk = if sub <= l { 0 } else { (sub - l + md - 1) / md };
            let res = l + kk * md - sub;
            is(V::T(vec![V::N(res), if op == sbb { V::N(kk) } else { V::B(kk != 0) }])).nt(kk != 0)
        }
        shift_left_small | shift_right_small => {
            let l = bigv(&args[0]);
            let s = args[1].as_n() as usize;
            let n = args[0].limbs().len();
            let md = pow2(64 * n);
            if op == shift_left_small {
                let t = &l << s;
                is(V::T(vec![un(&(&t % &md), n), V::N(word(&(&t >> (64 * n))) as u128)])).nt(t >= md)
            } else {
                // bits shifted out, left-aligned in a word
                let out = if s == 0 { BigUint::zero() } else { (&l << (64 - s)) % &b64 };
                is(V::T(vec![un(&(&l >> s), n), V::N(word(&out) as u128)])).nt(!out.is_zero())
            }
        }
        cmp_alias => is(V::I(0)).nt(true),
        cmp_windows => {
            let (a, b) = (bigv(&args[0]), bigv(&args[1]));
            let e = V::I(a.cmp(&b) as i8 as i128);
            pred(&format!("({e:?}, _)"), move |g| matches!(g, V::T(t) if t.len() == 2 && t[0] == e)).nt(true)
        }
        cmp => {
            let (a, b) = (bigv(&args[0]), bigv(&args[1]));
            is(V::I(a.cmp(&b) as i8 as i128)).nt(true)
        }
    }
}

group_glue!();

// ------------------------------------------------------------------ C11

const TOPS: [u64; 10] = [1, 2, (1 << 62) - 2, (1 << 62) - 1, 1 << 62, (1 << 63) - 2, (1 << 63) - 1, 1 << 63, (1 << 63) + 1, u64::MAX];
const LOWS: [u64; 4] = [1, 3, (1 << 63) + 1, u64::MAX];

fn moduli(n: usize, bits: usize) -> Vec<Limbs> {
    let mk = mask(bits);
    let mut out = vec![];
    if n == 1 {
        for m in (3..256u64).step_by(2) {
            out.push(vec![m]);
        }
        for m in b64() {
            if m & 1 == 1 && m >= 3 {
                out.push(vec![m]);
            }
        }
        out.retain(|m| m[0] <= mk);
        out.sort();
        out.dedup();
        return out;
    }
    for &low in &LOWS {
        for mid in 0..3 {
            for &top in &TOPS {
                if top > mk {
                    continue;
                }
                let mut m = vec![0u64; n];
                m[0] = low;
                for (i, x) in m.iter_mut().enumerate().skip(1) {
                    *x = match mid {
                        0 => 0,
                        1 => u64::MAX,
                        _ => if i % 2 == 0 { u64::MAX } else { 0 },
                    };
                }
                m[n - 1] = top;
                if n == 1 {
                    m[0] = top | 1;
                }
                out.push(m);
            }
        }
    }
    // SHORT moduli: fewer significant limbs than the type has (m < 2^(64 len) for every len < n)
    for len in 1..n {
        let g = golden(len);
        let mut shorts: Vec<Limbs> = vec![vec![u64::MAX; len], g.iter().map(|x| x | 1).collect(), { let mut v = vec![0u64; len]; v[0] = 1; v[len - 1] |= 1 << 62; v }];
        if len == 1 {
            shorts.extend([vec![3], vec![0xffff_ffff_ffff_ffc5]]);
        }
        for mut m in shorts {
            m.resize(n, 0);
            out.push(m);
        }
    }
    out.sort();
    out.dedup();
    out
}

fn operands(m: &Limbs, rich: bool) -> Vec<Limbs> {
    let n = m.len();
    let bm = big(m);
    let r = pow2(64 * n) % &bm;
    let mut c: Vec<BigUint> = vec![
        BigUint::zero(),
        BigUint::one(),
        BigUint::from(2u32),
        &bm - 1u32,
        &bm - 2u32,
        &bm >> 1,
        (&bm >> 1) + 1u32,
        r.clone(),
        if r.is_zero() { BigUint::zero() } else { &r - 1u32 },
        pow2(64 * n - 1),
        pow2(64 * n) - 1u32,
    ];
    // limb-shaped operands below (or reduced below) m
    let ys: &[u64] = if rich { &[0, 1, 1 << 63, u64::MAX - 1, u64::MAX] } else { &[0, u64::MAX] };
    for s in runs(64 * n, ys) {
        c.push(big(&s));
    }
    // m with one limb changed (a close to m with extreme limbs)
    for i in 0..n {
        for x in [0u64, 1, u64::MAX] {
            let mut w = m.clone();
            w[i] = x;
            c.push(big(&w));
        }
    }
    let mut out: Vec<Limbs> = c.into_iter().map(|v| to_limbs_n(&(v % &bm), n)).collect();
    out.sort();
    out.dedup();
    out
}

fn c11(r: &Runner) {
    r.set_rule("for every N in 1..=16: moduli m = (low, middle..., top) with low in {1,3,2^63+1,2^64-1}, middle limbs all-0 / all-MAX / alternating, top in {1,2,2^62-2,2^62-1,2^62,2^63-2,2^63-1,2^63,2^63+1,2^64-1} (below, at and above both carry thresholds), and SHORT moduli with 1..N-1 significant limbs (all-ones, structureless, 2^62-based; 3 and 2^64-59 in one limb); N = 1: all odd m in [3,255] and the one-limb boundary alphabet; operands a, b from {0,1,2,m-1,m-2,m/2,R mod m,...} plus run-shaped limb patterns and one-limb perturbations of m, reduced below m; the full product a x b per modulus; algorithms::{mul_redc,square_redc} and Uint::{mul_redc,square_redc} at BITS in {64N, 64N-1, 64N-63}. inv is computed by the harness. SOLVED universe (N = 2..8): for each modulus (the above plus structureless limbs and the BN254 / BLS12-381 / 2^255-19 primes) and each odd first limb b0 of b, a is solved so that the accumulator after the first round is m + j*2^64 (largest quotient digit in the next round, intermediate result >= m), with 4 fills of the upper limbs of b (incl. all-zero), both operand orders; plus all pairs of ordinary-looking operands. Every case is non-trivial; the hook counters state how often the carry / final-subtraction paths were reached");
    // N = 17, 18, 19, 21: limb counts above 16 that are not multiples of 4 (tails of unrolled loops)
    for n in (1..=16usize).chain([17, 18, 19, 21]) {
        for bits in [64 * n, 64 * n - 1, 64 * n - 63] {
            if bits == 0 || (n > 16 && bits != 64 * n) {
                continue;
            }
            if nlimbs(bits) != n {
                continue;
            }
            let ms = moduli(n, bits);
            let rich = n <= 4 || (r.is_thorough() && n <= 8);
            r.universe(&format!("N={n} BITS={bits}: {} moduli x operands^2", ms.len()), bits, ms.len(), |i, l| {
                let m = &ms[i];
                let bm = big(m);
                if bm < BigUint::from(3u32) {
                    return;
                }
                let inv = neg_inv64(m[0]);
                let mut ops = operands(m, rich);
                if n == 1 && m[0] < 256 {
                    ops = (0..m[0]).map(|x| vec![x]).collect();
                }
                // operands must also fit the Uint width
                ops.retain(|o| o[n - 1] & !mask(bits) == 0);
                let cap = if r.is_thorough() { 700 } else if n > 8 { 70 } else { 130 };
                if ops.len() > cap {
                    // keep the named candidates and an evenly spread remainder is NOT used: instead drop to the plain run shapes
                    ops = operands(m, false);
                    ops.retain(|o| o[n - 1] & !mask(bits) == 0);
                }
                for a in &ops {
                    let sq_args = [vu(a), vu(m), V::N(inv as u128)];
                    l.states(1);
                    if bits == 64 * n {
                        exec(l, bits, Op::alg_square_redc, &sq_args);
                    }
                    exec(l, bits, Op::uint_square_redc, &sq_args);
                    for b in &ops {
                        let args = [vu(a), vu(b), vu(m), V::N(inv as u128)];
                        l.states(1);
                        if bits == 64 * n {
                            exec(l, bits, Op::alg_mul_redc, &args);
                        }
                        exec(l, bits, Op::uint_mul_redc, &args);
                    }
                }
            });
        }
    }
    c11_fraction_tops(r);
    c11_solved(r);
}

/// Modulus top limbs at the thresholds an analysis of the carry bounds could produce: floor(2^64 * p / q) + d for small
/// q that are not powers of two (R/3, 2R/3, R/5 ... 7R/8), d in {-1, 0, 1}; lower limbs extreme; operands close to m
/// (they share its top limb) and the usual shapes. The built-in thresholds 2^62, 2^63 are in the main universe.
fn c11_fraction_tops(r: &Runner) {
    let mut tops: Vec<u64> = vec![];
    for (p, q) in [(1u128, 3u128), (2, 3), (1, 5), (2, 5), (3, 5), (4, 5), (1, 6), (5, 6), (1, 7), (3, 7), (6, 7), (3, 8), (5, 8), (7, 8)] {
        let t = ((p << 64) / q) as u64;
        tops.extend([t - 1, t, t + 1]);
    }
    tops.sort();
    tops.dedup();
    // at the thirds themselves: the full product of a 12-letter alphabet over the free limbs of BOTH the modulus and the
    // operand (which shares the modulus' top limb), squaring only
    {
        const AL12: [u64; 12] = [0, 1, 2, (1 << 32) - 1, 1 << 32, (1 << 63) - 1, 1 << 63, (1 << 63) + 1, 0x5555_5555_5555_5555, 0xaaaa_aaaa_aaaa_aaaa, u64::MAX - 1, u64::MAX];
        let thirds: Vec<u64> = { let a = ((1u128 << 64) / 3) as u64; let b = ((2u128 << 64) / 3) as u64; vec![a - 1, a, a + 1, b - 1, b, b + 1] };
        for n in [2usize, 3] {
            let bits = 64 * n;
            let free: Vec<Limbs> = if n == 2 { AL12.iter().map(|x| vec![*x]).collect() } else { AL12.iter().flat_map(|x| AL12.iter().map(move |y| vec![*x, *y])).collect() };
            let mut ms: Vec<Limbs> = vec![];
            for &top in &thirds {
                for f in &free {
                    let mut m = f.clone();
                    m[0] |= 1;
                    m.push(top);
                    ms.push(m);
                }
            }
            ms.sort();
            ms.dedup();
            r.universe(&format!("N={n}: square_redc with the modulus' top limb at R/3, 2R/3 (+-1): {} moduli x {} operands sharing the top limb (12-letter alphabet on every free limb)", ms.len(), free.len()), bits, ms.len(), |i, l| {
                let m = &ms[i];
                let inv = neg_inv64(m[0]);
                let bm = big(m);
                for f in &free {
                    let mut a = f.clone();
                    a.push(m[n - 1]);
                    if big(&a) >= bm {
                        continue;
                    }
                    l.states(1);
                    let sq_args = [vu(&a), vu(m), V::N(inv as u128)];
                    exec(l, bits, Op::alg_square_redc, &sq_args);
                    exec(l, bits, Op::uint_square_redc, &sq_args);
                }
            });
        }
    }
    for n in 2..=4usize {
        let bits = 64 * n;
        let mut ms: Vec<Limbs> = vec![];
        for &top in &tops {
            for low in [1u64, u64::MAX] {
                for mid in [0u64, u64::MAX, 0x5555_5555_5555_5555] {
                    let mut m = vec![mid; n];
                    m[0] = low | 1;
                    m[n - 1] = top;
                    ms.push(m);
                }
            }
        }
        ms.sort();
        ms.dedup();
        r.universe(&format!("N={n}: {} moduli with top limb at floor(2^64 p/q) + d, q in {{3,5,6,7,8}} x operands^2", ms.len()), bits, ms.len(), |i, l| {
            let m = &ms[i];
            let inv = neg_inv64(m[0]);
            let mut ops = operands(m, n <= 3);
            // operands that share the top limb of m with every extreme fill below it
            for fill in [0u64, 1, u64::MAX - 1, u64::MAX] {
                let mut a = vec![fill; n];
                a[n - 1] = m[n - 1];
                if big(&a) < big(m) {
                    ops.push(a);
                }
            }
            ops.sort();
            ops.dedup();
            for a in &ops {
                let sq_args = [vu(a), vu(m), V::N(inv as u128)];
                l.states(1);
                exec(l, bits, Op::alg_square_redc, &sq_args);
                exec(l, bits, Op::uint_square_redc, &sq_args);
                for b in &ops {
                    let args = [vu(a), vu(b), vu(m), V::N(inv as u128)];
                    l.states(1);
                    exec(l, bits, Op::alg_mul_redc, &args);
                }
            }
        });
    }
}

/// SOLVED intermediate states: operands for which the accumulator after the first round is T = m + j*2^64
/// (T >= m, T = m (mod 2^64)), so that the NEXT round uses the largest quotient digit 2^64-1 and its result is
/// again >= m. Needs a*b0 = m + j*2^128 exactly: j is solved modulo the (odd) first limb b0 of b.
fn c11_solved(r: &Runner) {
    const B0: [u64; 10] = [3, 5, 7, 255, (1 << 32) + 1, 1_000_003, 0x9E37_79B9_7F4A_7C15, 0x0101_0101_0101_0101, 10_000_000_000_000_000_001, u64::MAX];
    let bn254_r: BigUint = "21888242871839275222246405745257275088548364400416034343698204186575808495617".parse().unwrap();
    let bls_r: BigUint = "52435875175126190479447740508185965837690552500527637822603658699938581184513".parse().unwrap();
    let p25519: BigUint = pow2(255) - 19u32;
    for n in 2..=8usize {
        let bits = 64 * n;
        let mut ms = moduli(n, bits);
        // ordinary-looking moduli: structureless limbs with tops on both sides of the thresholds, and well-known primes
        let g = golden(3 * n);
        for (k, top) in [(0usize, (1u64 << 61) + 12345), (1, (1 << 62) + 987_654_321), (2, (1 << 63) + 55)] {
            let mut m: Limbs = (0..n).map(|i| g[k * n + i]).collect();
            m[0] |= 1;
            m[n - 1] = top;
            ms.push(m);
        }
        if n == 4 {
            ms.extend([&bn254_r, &bls_r, &p25519].iter().map(|p| to_limbs_n(p, 4)));
        }
        r.universe(&format!("N={n}: solved states T1 = m + j*2^64 for {} moduli x {} first limbs x 4 fills", ms.len(), B0.len()), bits, ms.len(), |i, l| {
            let m = &ms[i];
            let bm = big(m);
            let inv = neg_inv64(m[0]);
            let p128 = pow2(128);
            for &b0 in &B0 {
                let bb0 = BigUint::from(b0);
                let Some(pi) = (&p128 % &bb0).modinv(&bb0) else { continue };
                let j = ((&bb0 - (&bm % &bb0)) * pi) % &bb0;
                let num = &bm + &j * &p128;
                if !(&num % &bb0).is_zero() {
                    panic!("harness: solved universe is inconsistent");
                }
                let a = &num / &bb0;
                if a >= bm || (&j << 64usize) >= bm {
                    continue;
                }
                for fill in [0u64, 1, u64::MAX, 0x9E37_79B9_7F4A_7C15] {
                    let mut b = vec![fill; n];
                    b[0] = b0;
                    if big(&b) >= bm {
                        b[n - 1] = 0;
                    }
                    if big(&b) >= bm {
                        continue;
                    }
                    let (av, bv) = (V::U(to_limbs_n(&a, n)), vu(&b));
                    l.states(1);
                    for (x, y) in [(&av, &bv), (&bv, &av)] {
                        let args = [x.clone(), y.clone(), vu(m), V::N(inv as u128)];
                        exec(l, bits, Op::alg_mul_redc, &args);
                        exec(l, bits, Op::uint_mul_redc, &args);
                    }
                }
            }
            // ordinary operands: all pairs (incl. a = b) of structureless / decimal / byte-pattern values below m
            let g = golden(2 * n);
            let mut ops: Vec<BigUint> = vec![big(&g[..n].to_vec()), big(&g[n..].to_vec()), big(&vec![0x0101_0101_0101_0101u64; n]), "1".repeat(19 * n).parse().unwrap(), if bm > BigUint::from(10_000_000_019u64) { &bm - BigUint::from(10_000_000_019u64) } else { &bm - 1u32 }, (&bm >> 1) + 12345u32];
            for o in ops.iter_mut() {
                *o = &*o % &bm;
            }
            for a in &ops {
                let sq = [V::U(to_limbs_n(a, n)), vu(m), V::N(inv as u128)];
                exec(l, bits, Op::alg_square_redc, &sq);
                exec(l, bits, Op::uint_square_redc, &sq);
                for b in &ops {
                    l.states(1);
                    let args = [V::U(to_limbs_n(a, n)), V::U(to_limbs_n(b, n)), vu(m), V::N(inv as u128)];
                    exec(l, bits, Op::alg_mul_redc, &args);
                    exec(l, bits, Op::uint_mul_redc, &args);
                }
            }
        });
    }
}

// ------------------------------------------------------------------ C12

const QS: [u64; 7] = [1, 2, 3, (1 << 32) - 1, 1 << 32, 1 << 63, u64::MAX];
const C12_OPS: &[Op] = &[Op::gcd, Op::lcm, Op::gcd_extended, Op::alg_gcd, Op::alg_gcd_extended, Op::lehmer_from_apply];

fn gcd_case(l: &mut Local, bits: usize, a: &BigUint, b: &BigUint) {
    let (la, lb) = (u(a, bits), u(b, bits));
    l.states(1);
    for &op in C12_OPS {
        if op == Op::lehmer_from_apply && a < b {
            continue;
        }
        exec(l, bits, op, &[la.clone(), lb.clone()]);
    }
    // argument order swapped for the symmetric entry points
    for op in [Op::gcd, Op::lcm, Op::gcd_extended] {
        exec(l, bits, op, &[lb.clone(), la.clone()]);
    }
    // word-level prefix matrices on the leading 128 bits, shifted so that a0 >= 2^63
    if a.bits() > 64 && a >= b {
        let sh = a.bits() as usize;
        let (pa, pb) = if sh >= 128 { (a >> (sh - 128), b >> (sh - 128)) } else { (a << (128 - sh), b << (128 - sh)) };
        let (ka, kb) = (un(&pa, 2), un(&pb, 2));
        k::exec(l, 128, k::Op::from_u128_prefix_apply, &[ka.clone(), kb.clone()]);
        k::exec(l, 128, k::Op::from_u64_prefix_apply, &[ka, kb]);
    }
}

/// deviation-bounded DFS over inverse Euclid steps from (a, b): children (q*a + b, a)
fn qseq_dfs(l: &mut Local, bits: usize, lim: &BigUint, a: &BigUint, b: &BigUint, dev: u32, maxdev: u32) {
    for &q in &QS {
        let cost = if q == 1 { 0 } else { 1 };
        if dev + cost > maxdev {
            continue;
        }
        if b.is_zero() && q == 1 {
            continue;
        }
        let na = BigUint::from(q) * a + b;
        if &na >= lim {
            continue;
        }
        gcd_case(l, bits, &na, a);
        qseq_dfs(l, bits, lim, &na, a, dev + cost, maxdev);
    }
}

fn compose_universe(r: &Runner) {
    // all 512 matrices with entries from {0, 1, 3, 2^32-1} and both sign patterns: every ordered pair
    let al = [0u64, 1, 3, (1 << 32) - 1];
    let mut ms: Vec<Limbs> = vec![];
    for c in 0..256usize {
        for f in 0..2u64 {
            ms.push(vec![al[c & 3], al[(c >> 2) & 3], al[(c >> 4) & 3], al[(c >> 6) & 3], f]);
        }
    }
    let pts: Vec<(Limbs, Limbs)> = vec![(vec![5, 9], vec![3, 2]), (vec![u64::MAX, 1 << 63], vec![0x9E37_79B9_7F4A_7C15, 7]), (vec![0, 1], vec![1, 0])];
    r.universe("LehmerMatrix::compose: all ordered pairs of 512 matrices (entries {0,1,3,2^32-1} x sign pattern), product and product applied to 3 pairs", 128, ms.len(), |i, l| {
        for y in &ms {
            l.states(1);
            k::exec(l, 128, k::Op::compose, &[vu(&ms[i]), vu(y)]);
            for (a, b) in &pts {
                k::exec(l, 128, k::Op::compose_apply, &[vu(&ms[i]), vu(y), vu(a), vu(b)]);
            }
        }
    });
}

/// WORST-CASE LENGTH of the algorithm: quotient sequences that repeat a short pattern of medium quotients (2^16 ... 2^31,
/// interleaved with 1s) until the width is full. A Lehmer step certifies only one or two Euclidean steps on such
/// inputs, so the number of outer iterations is several times that of random operands - the inputs an iteration bound,
/// a fixed-size work buffer or a step counter would be sized against.
fn periodic_quotients(r: &Runner) {
    let pats: Vec<Vec<u64>> = {
        let mut p: Vec<Vec<u64>> = vec![vec![1], vec![2], vec![3], vec![5, 1], vec![1, 2], vec![1 << 16], vec![(1 << 16) + 1, 1], vec![1 << 20, 1, 1 << 10, 1]];
        for q in [(1u64 << 22) + 1, (1 << 25) + 3, (1 << 28) - 1, (1 << 30) - 1, (1 << 31) + 5, (1 << 32) - 1, 1 << 32] {
            p.push(vec![q]);
            p.push(vec![q, 1]);
            p.push(vec![q, 1, 1]);
            p.push(vec![q, 2]);
            p.push(vec![q, 1, q / 3 + 1, 1]);
        }
        p
    };
    for bits in [512usize, 1023, 1024] {
        let m = pow2(bits);
        let mut pairs: Vec<(BigUint, BigUint)> = vec![];
        for pat in &pats {
            for g in [1u32, 6] {
                for first in 0..pat.len() {
                    let (mut a, mut b) = (BigUint::from(g), BigUint::zero());
                    let mut k = first;
                    loop {
                        let na = &a * pat[k % pat.len()] + &b;
                        if na >= m {
                            break;
                        }
                        b = a;
                        a = na;
                        k += 1;
                    }
                    pairs.push((a, b));
                }
            }
        }
        pairs.sort();
        pairs.dedup();
        r.universe(&format!("periodic quotient sequences filling the width: {} pairs from {} patterns of medium quotients", pairs.len(), pats.len()), bits, pairs.len(), |i, l| {
            let (a, b) = &pairs[i];
            gcd_case(l, bits, a, b);
            gcd_case(l, bits, b, a);
        });
    }
}

/// Dense operands at every difference of bit lengths 0..=72 (see C10's `c10_bit_gaps`).
fn gcd_bit_gaps(r: &Runner) {
    for bits in [128usize, 192, 256] {
        let n = nlimbs(bits);
        let g = golden(n * 80);
        let mut pairs: Vec<(BigUint, BigUint)> = vec![];
        for salt in 0..48usize {
            let m: Limbs = (0..n).map(|i| g[(i + salt * n) % g.len()] | if i + 1 == n { 1 << 63 } else { 0 }).collect();
            let a0: Limbs = (0..n).map(|i| g[(i + salt * n + 7 * n + 3) % g.len()] | if i + 1 == n { 1 << 63 } else { 0 }).collect();
            for gap in 0..=72usize {
                pairs.push((big(&m), big(&a0) >> gap));
            }
        }
        r.universe(&format!("dense operands at every bit-length gap 0..=72 ({} pairs)", pairs.len()), bits, pairs.len(), |i, l| {
            let (a, b) = &pairs[i];
            gcd_case(l, bits, a, b);
        });
    }
}

fn c12(r: &Runner) {
    compose_universe(r);
    periodic_quotients(r);
    gcd_bit_gaps(r);
    r.set_rule("S(B)^2 for B <= 8 (10 thorough); all pairs of the wide universe at edge widths; a = b, a = b +- 1; and the QUOTIENT-SEQUENCE universe: the tree of inverse Euclid steps (a,b) -> (q*a+b, a) from seeds (g,0), g in {1,2,2^20,15015,2^61-1,2^64+1,2^128+1}, q in {1,2,3,2^32-1,2^32,2^63,2^64-1}, explored deviation-bounded (q = 1, the Fibonacci path, is free; any other quotient costs 1): EVERY sequence with at most D deviations is followed until the pair no longer fits the width and every node is a checked pair (gcd, lcm, gcd_extended in both argument orders, the Lehmer matrix of the pair and the word-level prefix matrices of its leading 128 bits). from_u64 on all pairs < 2^10 and on B64^2. non-trivial: both operands non-zero and different");
    for bits in 0..=if r.is_thorough() { 10usize } else { 8 } {
        let uv = small_all(bits);
        r.universe(&format!("S({bits})^2"), bits, uv.len(), |i, l| {
            let a = big(&uv[i]);
            for b in &uv {
                gcd_case(l, bits, &a, &big(b));
            }
        });
    }
    let ws: &[usize] = if r.is_thorough() { &[63, 64, 65, 127, 128, 129, 191, 192, 193, 255, 256, 257, 320, 512] } else { &[64, 65, 128, 129, 192, 256, 257] };
    for &bits in ws {
        let (uv, d) = pick(bits, if r.is_thorough() { 1500 } else { 500 }, &salt(r.seed));
        r.universe(&format!("({d})^2"), bits, uv.len(), |i, l| {
            let a = big(&uv[i]);
            for b in &uv {
                gcd_case(l, bits, &a, &big(b));
            }
            // operands related to a (a, !a, -a, a/2, 2a, limb-reversed, ...)
            for b in related(bits, &uv[i]) {
                gcd_case(l, bits, &a, &big(&b));
            }
            // a = b +- 1
            let m = pow2(bits);
            if !a.is_zero() {
                gcd_case(l, bits, &a, &(&a - 1u32));
            }
            if &a + 1u32 < m {
                gcd_case(l, bits, &(&a + 1u32), &a);
            }
        });
    }
    // quotient-sequence universe
    let qw: Vec<(usize, u32)> = if r.is_thorough() {
        vec![(64, 3), (65, 3), (96, 3), (127, 2), (128, 2), (129, 2), (191, 2), (192, 2), (193, 2), (256, 2), (257, 2), (320, 2), (384, 1), (512, 1)]
    } else {
        vec![(64, 2), (65, 2), (127, 2), (128, 2), (129, 2), (192, 1), (256, 1), (257, 1), (320, 1)]
    };
    let mut seeds: Vec<BigUint> = [1u64, 2, 1 << 20, 3 * 5 * 7 * 11 * 13, (1 << 61) - 1].iter().map(|g| BigUint::from(*g)).collect();
    // common divisors above one word that are 1 modulo 2^64
    seeds.extend([pow2(64) + 1u32, pow2(128) + 1u32]);
    for (bits, maxdev) in qw {
        let lim = pow2(bits);
        // roots: all nodes of depth <= 2 with their deviation count (tasks for the parallel DFS)
        let mut roots: Vec<(BigUint, BigUint, u32)> = vec![];
        let mut frontier: Vec<(BigUint, BigUint, u32)> = seeds.iter().map(|g| (g.clone(), BigUint::zero(), 0)).collect();
        let mut interior: Vec<(BigUint, BigUint)> = vec![];
        for _depth in 0..3 {
            let mut nx = vec![];
            for (a, b, dev) in &frontier {
                for &q in &QS {
                    let cost = if q == 1 { 0 } else { 1 };
                    if dev + cost > maxdev || (b.is_zero() && q == 1) {
                        continue;
                    }
                    let na = BigUint::from(q) * a + b;
                    if na >= lim {
                        continue;
                    }
                    interior.push((na.clone(), a.clone()));
                    nx.push((na, a.clone(), dev + cost));
                }
            }
            frontier = nx;
        }
        roots.append(&mut frontier);
        r.universe(&format!("quotient sequences, <= {maxdev} deviations: depth<=3 nodes ({})", interior.len()), bits, interior.len(), |i, l| {
            gcd_case(l, bits, &interior[i].0, &interior[i].1);
        });
        r.universe(&format!("quotient sequences, <= {maxdev} deviations: DFS below {} depth-3 roots", roots.len()), bits, roots.len(), |i, l| {
            let (a, b, dev) = &roots[i];
            qseq_dfs(l, bits, &lim, a, b, *dev, maxdev);
        });
    }
    // from_u64
    r.universe("from_u64 on all pairs r0 >= r1 below 2^10", 64, 1024, |i, l| {
        for b in 0..=i {
            l.states(1);
            k::exec(l, 64, k::Op::from_u64_apply, &[V::N(i as u128), V::N(b as u128)]);
        }
    });
    let bw = b64();
    r.universe("from_u64 on B64^2 (r0 >= r1)", 64, bw.len(), |i, l| {
        for &b in &bw {
            if b <= bw[i] {
                l.states(1);
                k::exec(l, 64, k::Op::from_u64_apply, &[V::N(bw[i] as u128), V::N(b as u128)]);
            }
        }
    });
    // leading words in an EXACT small ratio p : q (the word-level Euclid sequence terminates with a zero remainder) x
    // continuations that deviate from the ratio in either direction
    {
        let mut pq: Vec<(u64, u64)> = vec![];
        for p in 2u64..=34 {
            for q in 1..p {
                if num_integer::Integer::gcd(&p, &q) == 1 {
                    pq.push((p, q));
                }
            }
        }
        r.universe(&format!("prefix matrices and gcd on leading words in exact ratio p:q ({} coprime pairs, p <= 34) x continuations", pq.len()), 256, pq.len(), |i, l| {
            let (p, q) = pq[i];
            let smax = u64::MAX / p;
            for s in [smax, smax - 1, 1u64 << (63 - (64 - p.leading_zeros() as u64).min(63)).max(1), (smax >> 20) << 20, 0x9E37_79B9_7F4A_7C15 % smax + 1] {
                let (a0, a1) = (p * s, q * s);
                if a0 < 1 << 63 {
                    // normalise: scale by the largest power of two that keeps p*s below 2^64
                    let sh = a0.leading_zeros();
                    let (a0, a1) = (a0 << sh, a1 << sh);
                    for (lo_a, lo_b) in [(0u64, 0u64), (u64::MAX, 0), (0, u64::MAX), (0, 1), (1, 0), (u64::MAX, u64::MAX), (1 << 36, 0), (0, 1 << 36)] {
                        l.states(1);
                        let (ka, kb) = (V::U(vec![lo_a, a0]), V::U(vec![lo_b, a1]));
                        k::exec(l, 128, k::Op::from_u64_prefix_apply, &[ka.clone(), kb.clone()]);
                        k::exec(l, 128, k::Op::from_u128_prefix_apply, &[ka, kb]);
                        // the same pair as the top of a 256-bit number, deviating far below
                        let a = (BigUint::from(a0) << 192usize) + (BigUint::from(lo_a) << 100usize) + lo_a;
                        let b = (BigUint::from(a1) << 192usize) + (BigUint::from(lo_b) << 100usize) + lo_b;
                        if a >= b {
                            gcd_case(l, 256, &a, &b);
                        }
                    }
                    continue;
                }
                for (lo_a, lo_b) in [(0u64, 0u64), (u64::MAX, 0), (0, u64::MAX), (0, 1), (1, 0), (u64::MAX, u64::MAX)] {
                    l.states(1);
                    let (ka, kb) = (V::U(vec![lo_a, a0]), V::U(vec![lo_b, a1]));
                    k::exec(l, 128, k::Op::from_u64_prefix_apply, &[ka.clone(), kb.clone()]);
                    k::exec(l, 128, k::Op::from_u128_prefix_apply, &[ka, kb]);
                    let a = (BigUint::from(a0) << 192usize) + (BigUint::from(lo_a) << 100usize) + lo_a;
                    let b = (BigUint::from(a1) << 192usize) + (BigUint::from(lo_b) << 100usize) + lo_b;
                    if a >= b {
                        gcd_case(l, 256, &a, &b);
                    }
                }
            }
            // the construction a = p f, b = q f + delta with f = 2^200 + 2^100 (ratio exact in the leading words only)
            let f = pow2(200) + pow2(100);
            let (pa, qb) = (&f * p, &f * q);
            for delta in [-1i32, 0, 1] {
                let b = if delta < 0 { &qb - 1u32 } else { &qb + delta as u32 };
                gcd_case(l, 256, &pa, &b);
                gcd_case(l, 256, &(&pa + 1u32), &b);
                if p * 2 < 64 {
                    gcd_case(l, 256, &(&pa - 1u32), &b);
                }
            }
        });
    }
    // from_u64_prefix / from_u128_prefix on B64^2 with a0 >= 2^63, with extreme continuations
    r.universe("prefix matrices on B64^2 (a0 >= 2^63, a0 >= a1) x low-word continuations", 128, bw.len(), |i, l| {
        let a0 = bw[i];
        if a0 < 1 << 63 {
            return;
        }
        for &a1 in &bw {
            if a1 > a0 {
                continue;
            }
            for (lo_a, lo_b) in [(0u64, 0u64), (u64::MAX, 0), (0, u64::MAX), (u64::MAX, u64::MAX), (1, 0)] {
                if a1 == a0 && lo_b > lo_a {
                    continue;
                }
                let (ka, kb) = (V::U(vec![lo_a, a0]), V::U(vec![lo_b, a1]));
                l.states(1);
                k::exec(l, 128, k::Op::from_u64_prefix_apply, &[ka.clone(), kb.clone()]);
                k::exec(l, 128, k::Op::from_u128_prefix_apply, &[ka, kb]);
            }
        }
    });
}

// ------------------------------------------------------------------ C14

fn slices_upto(maxlen: usize, al: &[u64]) -> Vec<Limbs> {
    let mut out = vec![vec![]];
    let mut cur: Vec<Limbs> = vec![vec![]];
    for _ in 0..maxlen {
        let mut nx = vec![];
        for v in &cur {
            for &a in al {
                let mut w = v.clone();
                w.push(a);
                nx.push(w);
            }
        }
        out.extend(nx.iter().cloned());
        cur = nx;
    }
    out
}
/// run-shaped slices of exactly `len` limbs
fn run_slices(len: usize, ys: &[u64]) -> Vec<Limbs> {
    if len == 0 {
        return vec![vec![]];
    }
    runs(64 * len, ys)
}

fn div_cases(l: &mut Local, n: &Limbs, d: &Limbs) {
    use k::Op as K;
    let bd = big(d);
    l.states(1);
    let (nv, dv) = (vu(n), vu(d));
    // slices of length 0 included: an empty numerator is zero (q, r) = (0, 0), an empty divisor is a zero divisor
    k::exec(l, 0, K::div, &[nv.clone(), dv.clone()]);
    if bd.is_zero() || n.is_empty() || d.is_empty() {
        return;
    }
    // specialised kernels on the sub-universe satisfying their documented preconditions
    let dt: Limbs = {
        let mut v = d.clone();
        while v.last() == Some(&0) {
            v.pop();
        }
        v
    };
    let nt: Limbs = {
        let mut v = n.clone();
        while v.last() == Some(&0) {
            v.pop();
        }
        v
    };
    if dt.len() >= 3 && n.len() >= dt.len() {
        k::exec(l, 0, K::div_nxm, &[nv.clone(), vu(&dt)]);
    }
    if dt.len() >= 2 && *dt.last().unwrap() >= 1 << 63 && n.len() > dt.len() && big(&n[n.len() - dt.len()..]) < big(&dt) {
        k::exec(l, 0, K::div_nxm_normalized, &[nv.clone(), vu(&dt)]);
    }
    if dt.len() == 1 && !nt.is_empty() {
        k::exec(l, 0, K::div_nx1, &[vu(&nt), V::N(dt[0] as u128)]);
        if dt[0] >= 1 << 63 {
            k::exec(l, 0, K::div_nx1_normalized, &[nv.clone(), V::N(dt[0] as u128)]);
        }
    }
    if dt.len() == 2 && !nt.is_empty() {
        k::exec(l, 0, K::div_nx2, &[vu(&nt), vu(&dt)]);
        if dt[1] >= 1 << 63 {
            k::exec(l, 0, K::div_nx2_normalized, &[nv.clone(), vu(&dt)]);
        }
    }
}

fn c14(r: &Runner) {
    use k::Op as K;
    r.set_rule("algorithms::div on numerator x divisor slices of independent lengths 1..=12 (limb alphabet products for short slices, run shapes for long ones, leading-zero padding on either operand included), the specialised kernels on the sub-universe that satisfies each one's documented preconditions (checked by the harness before the call); reciprocal on every one of the 256 table rows x 8 in-row offsets and the normalised part of B64; reciprocal_2 on those d1 x 8 low words; div_2x1 / div_3x2 on u = q*d + r built from B64 and on raw B64 words. the hook counters state how often each correction branch was reached");
    // div: short slices = full products
    let al3: &[u64] = &[0, 1, u64::MAX];
    let al4: &[u64] = &[0, 1, 1 << 63, u64::MAX];
    let (nmax, dmax) = if r.is_thorough() { (7, 6) } else { (6, 5) };
    let nums = slices_upto(nmax, al3);
    let divs = slices_upto(dmax, al4);
    r.universe(&format!("div: numerators len<={nmax} over A3 ({}) x divisors len<={dmax} over A4 ({})", nums.len(), divs.len()), 0, nums.len(), |i, l| {
        for d in &divs {
            div_cases(l, &nums[i], d);
        }
    });
    // div_nx1 called directly: numerators of 1..=4 limbs (highest limb non-zero) x EVERY kind of one-word divisor - the
    // boundary alphabet B64 and structureless words, normalised or not (the alphabets above only have the un-normalised
    // divisor 1), incl. a leading limb smaller than / equal to / larger than the divisor
    {
        let mut ds: Vec<u64> = b64().into_iter().filter(|d| *d != 0).collect();
        ds.extend(golden(40));
        ds.extend([3, 5, 7, 10, 1_000_000_007, 0xffff_ffff, 0x1_0000_0001]);
        ds.sort();
        ds.dedup();
        r.universe(&format!("div_nx1 directly: numerators of 1..=4 limbs x {} one-word divisors (normalised and not)", ds.len()), 0, ds.len(), |i, l| {
            let d = ds[i];
            let tops = [1u64, 2, d.wrapping_sub(1).max(1), d, d.wrapping_add(1).max(1), d / 2 + 1, u64::MAX, 1 << 63, 0x9E37_79B9_7F4A_7C15];
            for len in 1..=4usize {
                for &top in &tops {
                    for low in [0u64, 1, u64::MAX, 0xC2B2_AE3D_27D4_EB4F] {
                        let mut n = vec![low; len];
                        n[len - 1] = top;
                        l.states(1);
                        k::exec(l, 0, K::div_nx1, &[vu(&n), V::N(d as u128)]);
                    }
                }
            }
        });
    }
    // long slices: run shapes, every length pair 1..=12 x 1..=12
    let ys: &[u64] = if r.is_thorough() { &[0, 1, 2, 1 << 63, (1 << 63) + 1, u64::MAX - 1, u64::MAX] } else { &[0, 1, 1 << 63, u64::MAX] };
    let by_len: Vec<Vec<Limbs>> = (0..=12).map(|n| run_slices(n, ys)).collect();
    let mut pairs: Vec<(usize, usize)> = vec![];
    for nl in 0..=12 {
        for dl in 0..=12 {
            pairs.push((nl, dl));
        }
    }
    r.universe("div: run-shaped slices, every length pair 0..=12 x 0..=12", 0, pairs.len(), |i, l| {
        let (nl, dl) = pairs[i];
        for n in &by_len[nl] {
            for d in &by_len[dl] {
                div_cases(l, n, d);
            }
        }
    });
    // derived: n = q*d + r + delta with run-shaped q, d (forces exact and off-by-one remainders)
    let mut qd: Vec<(usize, usize)> = vec![];
    for ql in 1..=4 {
        for dl in 1..=6 {
            qd.push((ql, dl));
        }
    }
    let ys2: &[u64] = &[1, 1 << 63, u64::MAX];
    let by_len2: Vec<Vec<Limbs>> = (0..=6).map(|n| run_slices(n, ys2)).collect();
    r.universe("div: n = q*d + r + delta, run-shaped q (1..4 limbs) and d (1..6 limbs)", 0, qd.len(), |i, l| {
        let (ql, dl) = qd[i];
        for q in &by_len2[ql] {
            let bq = big(q);
            for d in &by_len2[dl] {
                let bd = big(d);
                if bd.is_zero() {
                    continue;
                }
                for rr in [BigUint::zero(), BigUint::one(), &bd - 1u32, &bd >> 1] {
                    if rr >= bd {
                        continue;
                    }
                    for delta in [-1i32, 0, 1] {
                        let n = &bq * &bd + &rr;
                        let n = if delta < 0 { if n.is_zero() { continue } else { n - 1u32 } } else { n + delta as u32 };
                        let nlen = (n.bits() as usize + 63) / 64;
                        for pad in [0usize, 1] {
                            let nl = to_limbs_n(&n, nlen.max(1) + pad);
                            div_cases(l, &nl, d);
                            if pad == 1 {
                                let mut dp = d.clone();
                                dp.push(0);
                                div_cases(l, &nl, &dp);
                            }
                        }
                    }
                }
            }
        }
    });
    // reciprocals
    let words = b64();
    let mut ds: Vec<u64> = vec![];
    for row in 256u64..512 {
        for e in [0u64, 1, (1 << 24) - 1, 1 << 24, 1 << 54, (1 << 55) - (1 << 24), (1 << 55) - 1, 0x2a_aaaa_aaaa_aaaa] {
            ds.push((row << 55) + e);
        }
    }
    for &w in &words {
        if w >= 1 << 63 {
            ds.push(w);
        }
    }
    for g in golden(if r.is_thorough() { 512 } else { 96 }) {
        ds.push(g | (1 << 63));
    }
    ds.sort();
    ds.dedup();
    let gq = golden(if r.is_thorough() { 256 } else { 48 });
    r.universe(&format!("reciprocal / reciprocal_2 / div_2x1 on {} normalised divisors (256 table rows x 8 offsets + B64 + G)", ds.len()), 64, ds.len(), |i, l| {
        let d = ds[i];
        l.states(1);
        for op in [K::reciprocal, K::reciprocal_mg10, K::reciprocal_ref] {
            k::exec(l, 64, op, &[V::N(d as u128)]);
        }
        for d0 in [0u64, 1, d.wrapping_sub(1), d, d.wrapping_add(1), 1 << 63, u64::MAX - 1, u64::MAX] {
            l.states(1);
            k::exec(l, 128, K::reciprocal_2, &[V::U(vec![d0, d])]);
            k::exec(l, 128, K::reciprocal_2_mg10, &[V::U(vec![d0, d])]);
        }
        // div_2x1 on raw words (u1 < d) - thinned to every 3rd word in the quick tier for u0
        for &u1 in &words {
            if u1 >= d {
                continue;
            }
            for &u0 in words.iter().step_by(if r.is_thorough() { 1 } else { 4 }).chain([0u64, u64::MAX].iter()) {
                l.states(1);
                let uu = V::U(vec![u0, u1]);
                k::exec(l, 128, K::div_2x1, &[uu.clone(), V::N(d as u128)]);
                if u0 & 0xff == 0 || u0 == u64::MAX {
                    k::exec(l, 128, K::div_2x1_mg10, &[uu.clone(), V::N(d as u128)]);
                    k::exec(l, 128, K::div_2x1_ref, &[uu, V::N(d as u128)]);
                }
            }
        }
        // u = q*d + r (q from the boundary alphabet and from the structureless alphabet G: exact
        // multiples whose reciprocal estimate is one too low exist only for unstructured q)
        for &q in words.iter().step_by(if r.is_thorough() { 1 } else { 5 }).chain(gq.iter()) {
            for rr in [0u64, 1, d - 1, d >> 1] {
                let uu = (q as u128) * (d as u128) + rr as u128;
                l.states(1);
                k::exec(l, 128, K::div_2x1, &[V::U(vec![uu as u64, (uu >> 64) as u64]), V::N(d as u128)]);
            }
        }
    });
    // dense sweep of the 40-bit prefix d40 = d >> 24 that the seed refinement of reciprocal() depends on:
    // for every one of the 256 table rows the first and the last 2^K prefixes of the row (the table seed is
    // floor(..) of the row start, so the refinement is most stressed at the two ends of a row)
    let k: u32 = if r.is_thorough() { 24 } else { 21 };
    r.universe(&format!("reciprocal: 256 table rows x first/last 2^{k} values of the 40-bit prefix (tight loop, u128 reference)"), 64, 256 * 32, |i, l| {
        let row = 256 + (i / 32) as u64;
        let part = (i % 32) as u64; // 16 chunks at the start, 16 at the end
        let per = (1u64 << k) / 16;
        let mut n = 0u64;
        for j in 0..per {
            let off40 = if part < 16 { part * per + j } else { (1u64 << 31) - 1 - ((part - 16) * per + j) };
            // low 24 bits: 0 at the start of the row, all ones at the end (extremes of the remaining freedom)
            let d = (row << 55) | (off40 << 24) | if part < 16 { 0 } else { 0xff_ffff };
            let e = (u128::MAX / d as u128 - (1u128 << 64)) as u64;
            n += 1;
            if vharness::runner::guarded(|| alg::div::reciprocal(d)) != Ok(e) {
                k::exec(l, 64, K::reciprocal, &[V::N(d as u128)]);
            }
        }
        l.states(n);
        l.bulk("reciprocal", n, n, 1);
    });
    // the same dense sweep around the interior point of every row where the table seed v0 is (nearly) exact,
    // v0 * d40 = 2^50: there the first Newton step v1 = 2^11 v0 - v0^2 d40 / 2^40 is at its maximum and the
    // head-room of the second step, 2^60 - v1 * d40, is smallest
    r.universe(&format!("reciprocal: 256 table rows x 2^{k} prefixes around the row's Newton maximum v0*d40 = 2^50 (tight loop, u128 reference)"), 64, 256 * 32, |i, l| {
        let row = 256 + (i / 32) as u64;
        let part = (i % 32) as u64;
        let per = (1u64 << k) / 32;
        let v0 = ((1u64 << 19) - 3 * (1 << 8)) / row;
        let lo40 = row << 31;
        let hi40 = (row << 31) | ((1 << 31) - 1);
        let centre = ((1u64 << 50) / v0).clamp(lo40, hi40);
        let first = centre.saturating_sub((1u64 << k) / 2).max(lo40);
        let mut n = 0u64;
        for j in 0..per {
            let p40 = first + part * per + j;
            if p40 > hi40 {
                break;
            }
            for low in [0u64, 0xff_ffff, 0x9e_3779] {
                let d = (p40 << 24) | low;
                let e = (u128::MAX / d as u128 - (1u128 << 64)) as u64;
                n += 1;
                if vharness::runner::guarded(|| alg::div::reciprocal(d)) != Ok(e) {
                    k::exec(l, 64, K::reciprocal, &[V::N(d as u128)]);
                }
            }
        }
        l.states(n);
        l.bulk("reciprocal", n, n, 1);
    });
    // "round fractions": d = floor(2^64 * p / q) + delta for every q <= 128 and 1/2 <= p/q < 1 (divisors whose
    // reciprocal is a simple fraction: truncations in the Newton steps line up with exact values)
    {
        let mut fr: Vec<u64> = vec![];
        for q in 2u128..=128 {
            for p in (q + 1) / 2..q {
                let b = ((p << 64) / q) as u64;
                for dl in -3i64..=3 {
                    let d = b.wrapping_add(dl as u64);
                    if d >= 1 << 63 {
                        fr.push(d);
                    }
                }
            }
        }
        fr.sort();
        fr.dedup();
        r.universe(&format!("reciprocal / div_2x1 / reciprocal_2 / div_3x2 on {} round-fraction divisors floor(2^64 p/q) + delta, q <= 128", fr.len()), 128, fr.len(), |i, l| {
            let d = fr[i];
            l.states(1);
            k::exec(l, 64, K::reciprocal, &[V::N(d as u128)]);
            for q in [1u64, 3, u64::MAX, d, 0x9E37_79B9_7F4A_7C15] {
                for rr in [0u64, 1, d - 1] {
                    let uu = (q as u128) * (d as u128) + rr as u128;
                    if ((uu >> 64) as u64) < d {
                        k::exec(l, 128, K::div_2x1, &[V::U(vec![uu as u64, (uu >> 64) as u64]), V::N(d as u128)]);
                    }
                }
            }
            // two-word divisors with this high word, and the two-word round fractions with this leading word
            for d0 in [0u64, 1, d, !d, u64::MAX, d.wrapping_mul(3), fr[(i * 7 + 1) % fr.len()]] {
                k::exec(l, 128, K::reciprocal_2, &[V::U(vec![d0, d])]);
                k::exec(l, 128, K::reciprocal_2_mg10, &[V::U(vec![d0, d])]);
                let dd = (d as u128) << 64 | d0 as u128;
                for q in [1u64, u64::MAX, 0x9E37_79B9_7F4A_7C15] {
                    let n = BigUint::from(q) * BigUint::from(dd) + BigUint::from(d0 / 2);
                    let nl = to_limbs_n(&n, 3);
                    if ((nl[2] as u128) << 64 | nl[1] as u128) < dd {
                        k::exec(l, 192, K::div_3x2, &[V::U(nl), V::U(vec![d0, d])]);
                    }
                }
            }
        });
    }
    // reciprocal_2: divisors SOLVED for so that the second-stage sum lands exactly on (or next to) d1, the
    // operand of the final tie-break comparison (a path of density 2^-64 under any product universe)
    r.universe(&format!("reciprocal_2: for {} high words d1, low words d0 solved such that the second-stage partial sum equals d1 +- 2", ds.len()), 128, ds.len(), |i, l| {
        let d1 = ds[i];
        let v0 = (u128::MAX / d1 as u128 - (1u128 << 64)) as u64;
        // replica of the two stages (only used to steer the search; the verdict comes from the oracle)
        let stage = |d0: u64| -> (u64, bool) {
            let mut v = v0;
            let mut p = d1.wrapping_mul(v).wrapping_add(d0);
            if p < d0 {
                v = v.wrapping_sub(1);
                if p >= d1 {
                    v = v.wrapping_sub(1);
                    p = p.wrapping_sub(d1);
                }
                p = p.wrapping_sub(d1);
            }
            let t1 = ((v as u128 * d0 as u128) >> 64) as u64;
            let p2 = p.wrapping_add(t1);
            (p2, p2 < t1)
        };
        let mut cands: Vec<u64> = vec![];
        // g(d0) = p2 - d1 (mod 2^64) is piecewise increasing in d0 with slope in [1, 2): walk towards a zero
        for start in [0u64, 1 << 62, 1 << 63, 3 << 62, d1, d1.wrapping_mul(0x9E37_79B9_7F4A_7C15), !d1, u64::MAX] {
            let mut d0 = start;
            for _ in 0..80 {
                let (p2, _) = stage(d0);
                let gap = d1.wrapping_sub(p2); // how far p2 is below d1 (mod 2^64)
                if gap == 0 {
                    break;
                }
                // slope >= 1: a step of gap/2 never overshoots a zero
                let step = (gap / 2).max(1);
                d0 = d0.wrapping_add(step);
            }
            for dj in -3i64..=3 {
                cands.push(d0.wrapping_add(dj as u64));
            }
        }
        cands.sort();
        cands.dedup();
        for d0 in cands {
            l.states(1);
            k::exec(l, 128, K::reciprocal_2, &[V::U(vec![d0, d1])]);
            k::exec(l, 128, K::reciprocal_2_mg10, &[V::U(vec![d0, d1])]);
            // and as a divisor of the 3-by-2 step
            let d = (d1 as u128) << 64 | d0 as u128;
            for q in [1u64, u64::MAX, d1] {
                let n = BigUint::from(q) * BigUint::from(d) + BigUint::from(d0);
                let nl = to_limbs_n(&n, 3);
                if ((nl[2] as u128) << 64 | nl[1] as u128) < d {
                    k::exec(l, 192, K::div_3x2, &[V::U(nl), V::U(vec![d0, d1])]);
                }
            }
        }
    });
    // div_3x2
    let ds3: Vec<u64> = if r.is_thorough() { ds.clone() } else { ds.iter().step_by(9).copied().collect() };
    let gq3 = golden(if r.is_thorough() { 128 } else { 32 });
    r.universe(&format!("div_3x2 on {} x 6 two-word divisors, n = q*d + r", ds3.len()), 192, ds3.len(), |i, l| {
        let d1 = ds3[i];
        for d0 in [0u64, 1, u64::MAX, d1, 1 << 63, u64::MAX - 1, d1.wrapping_mul(0x9E37_79B9_7F4A_7C15)] {
            let d = (d1 as u128) << 64 | d0 as u128;
            let bd = BigUint::from(d);
            // quotients 2^64-1, 2^64-2 drive the n2 == d1 special case of the reference kernel
            for &q in words.iter().step_by(if r.is_thorough() { 1 } else { 3 }).chain(gq3.iter()).chain([u64::MAX, u64::MAX - 1, u64::MAX - 2].iter()) {
                for rr in [0u128, 1, d - 1, d >> 1, (d0 as u128) << 1, d - 2] {
                    if rr >= d {
                        continue;
                    }
                    let n = BigUint::from(q) * &bd + BigUint::from(rr);
                    let nl = to_limbs_n(&n, 3);
                    let n21 = (nl[2] as u128) << 64 | nl[1] as u128;
                    if n21 >= d {
                        continue;
                    }
                    l.states(1);
                    let args = [V::U(nl), V::U(vec![d0, d1])];
                    k::exec(l, 192, K::div_3x2, &args);
                    if q & 1 == 0 || q > u64::MAX - 3 {
                        k::exec(l, 192, K::div_3x2_ref, &args);
                    }
                }
            }
        }
    });
}

// ------------------------------------------------------------------ C15

fn c15(r: &Runner) {
    use k::Op as K;
    r.set_rule("addmul: accumulator, a, b of independent lengths 0..=10: the full product of A3^len contents for lengths <= 3 (5 thorough) each, run shapes for longer slices; addmul_n for n = 0..=6; word primitives on B64^2 x carry; n x 1 kernels on slices of length 0..=10 x scalars from B64; shifts by EVERY amount 0..=63; cmp on all equal-length pairs; the same kernels on run-shaped slices of 24 lengths in 11..=66, cmp there on every pair of differing positions. non-trivial = a carry / borrow / overflow leaves the slice, or the accumulator is shorter than the product");
    let al3: &[u64] = &[0, 1, u64::MAX];
    let short = if r.is_thorough() { 5 } else { 3 };
    // slices by length: full product for short, run shapes for long
    let ys: &[u64] = if r.is_thorough() { &[0, 1, 1 << 63, u64::MAX - 1, u64::MAX] } else { &[0, 1, u64::MAX] };
    let by_len: Vec<Vec<Limbs>> = (0..=10)
        .map(|n| if n <= short { slices_upto(n, al3).into_iter().filter(|v| v.len() == n).collect() } else { run_slices(n, ys) })
        .collect();
    let mut triples: Vec<(usize, usize, usize)> = vec![];
    for ll in 0..=10 {
        for la in 0..=10 {
            for lb in 0..=10 {
                triples.push((ll, la, lb));
            }
        }
    }
    r.universe("addmul: 1331 length triples (acc, a, b) in 0..=10", 0, triples.len(), |i, l| {
        let (ll, la, lb) = triples[i];
        // keep the per-triple product enumerable: long accumulators use the extreme fills only
        let accs: Vec<Limbs> = if by_len[ll].len() > 30 { vec![vec![0; ll], vec![u64::MAX; ll], { let mut v = vec![u64::MAX; ll]; v[0] = 0; v }] } else { by_len[ll].clone() };
        for a in &by_len[la] {
            for b in &by_len[lb] {
                for acc in &accs {
                    l.states(1);
                    k::exec(l, 0, K::addmul, &[vu(acc), vu(a), vu(b)]);
                }
            }
        }
    });
    // LARGE balanced operands (where a sub-quadratic multiplication would take over) into accumulators that are full, nearly
    // full or empty: every partial product must still arrive
    {
        let g = golden(200);
        let mut cases: Vec<(Limbs, Limbs, Limbs)> = vec![];
        for n in [16usize, 31, 32, 33, 40, 64, 65] {
            let ops: Vec<Limbs> = vec![vec![u64::MAX; n], (0..n).map(|i| g[i]).collect(), (0..n).map(|i| g[i + 70] | 1).collect(), { let mut v = vec![0u64; n]; v[0] = 1; v[n - 1] = 1 << 63; v }];
            for al in [2 * n, 2 * n + 1, 2 * n + 3, 2 * n - 1, n] {
                let accs: Vec<Limbs> = vec![vec![0; al], vec![u64::MAX; al], { let mut v = vec![u64::MAX; al]; v[0] = 0; v }, { let mut v = vec![u64::MAX; al]; for x in v.iter_mut().take(n) { *x = 0; } v }, { let mut v = vec![0u64; al]; for x in v.iter_mut().skip(n) { *x = u64::MAX; } v }, (0..al).map(|i| g[(i + 17) % 200]).collect()];
                for a in &ops {
                    for b in &ops {
                        for acc in &accs {
                            cases.push((acc.clone(), a.clone(), b.clone()));
                        }
                    }
                }
            }
        }
        r.universe(&format!("addmul with large balanced operands (16..=65 limbs) into full / nearly full / empty accumulators of 2n-1..2n+3 limbs: {} cases", cases.len()), 0, cases.len(), |i, l| {
            let (acc, a, b) = &cases[i];
            l.states(1);
            k::exec(l, 0, K::addmul, &[vu(acc), vu(a), vu(b)]);
        });
    }
    // cmp on windows at different addresses modulo 16: equal-length slices of every length 0..=12 (and 17, 33), a pair of
    // differing positions, offsets (0,1), (1,0), (1,1), (0,0)
    {
        let mut cases: Vec<(Limbs, Limbs)> = vec![];
        for len in (0..=12usize).chain([17, 33]) {
            let base: Limbs = (0..len as u64).map(|i| i.wrapping_mul(0x9E37_79B9_7F4A_7C15) | 1).collect();
            cases.push((base.clone(), base.clone()));
            for i in 0..len {
                for j in 0..len {
                    let (mut a, mut b) = (base.clone(), base.clone());
                    a[i] = a[i].wrapping_add(1);
                    b[j] = b[j].wrapping_add(1);
                    cases.push((a, b));
                }
            }
        }
        r.universe(&format!("cmp on windows into larger buffers at different addresses modulo 16: {} slice pairs x 4 offset pairs", cases.len()), 0, cases.len(), |i, l| {
            let (a, b) = &cases[i];
            for (oa, ob) in [(0usize, 1usize), (1, 0), (1, 1), (0, 0), (2, 1), (3, 0)] {
                l.states(1);
                k::exec(l, 0, K::cmp_windows, &[vu(a), vu(b), V::n(oa), V::n(ob)]);
            }
        });
    }
    // the same slice as both operands: every (accumulator length, operand length) in 0..=12 x 0..=8, operands with every
    // number of low / high zero limbs, accumulators empty / full / mixed
    {
        let mut cases: Vec<(usize, Limbs)> = vec![];
        for la in 0..=8usize {
            let mut ops: Vec<Limbs> = if la <= 4 { slices_upto(la, &[0, 1, 3, u64::MAX]).into_iter().filter(|v| v.len() == la).collect() } else { run_slices(la, &[0, 1, 3, u64::MAX]) };
            ops.sort();
            ops.dedup();
            for a in ops {
                for ll in 0..=12usize {
                    cases.push((ll, a.clone()));
                }
            }
        }
        r.universe(&format!("addmul / addmul_n with both operands the same slice: {} (operand, accumulator length) pairs x 4 accumulator fills", cases.len()), 0, cases.len(), |i, l| {
            let (ll, a) = &cases[i];
            for acc in [vec![0u64; *ll], vec![u64::MAX; *ll], (1..=*ll as u64).collect::<Vec<u64>>(), { let mut v = vec![u64::MAX; *ll]; if *ll > 0 { v[0] = 1; } v }] {
                l.states(1);
                k::exec(l, 0, K::addmul_alias, &[vu(&acc), vu(a)]);
                k::exec(l, 0, K::cmp_alias, &[vu(&acc)]);
                if *ll == a.len() {
                    k::exec(l, 0, K::addmul_n_alias, &[vu(&acc), vu(a)]);
                }
            }
        });
    }
    for n in 0..=6usize {
        let sn: Vec<Limbs> = if n <= 3 { slices_upto(n, al3).into_iter().filter(|v| v.len() == n).collect() } else { run_slices(n, &[0, 1, u64::MAX]) };
        r.universe(&format!("addmul_n n={n}: ({} slices)^2 x accumulators", sn.len()), 0, sn.len(), |i, l| {
            let accs: Vec<Limbs> = if sn.len() > 30 { vec![vec![0; n], vec![u64::MAX; n], vec![1; n]] } else { sn.clone() };
            for b in &sn {
                for acc in &accs {
                    l.states(1);
                    k::exec(l, 0, K::addmul_n, &[vu(acc), vu(&sn[i]), vu(b)]);
                }
            }
        });
    }
    {
        // half-word alphabet on the multiplying kernels (one- and two-limb slices x scalar x carry-in)
        let h = h36();
        r.universe("mul_nx1 / addmul_nx1 / submul_nx1 / addmul on H36 limbs (32-bit halves from {0,1,2,2^31,2^32-2,2^32-1})", 128, h.len(), |i, l| {
            let a = h[i];
            for &b in &h {
                l.states(1);
                k::exec(l, 0, K::mul_nx1, &[V::U(vec![a]), V::N(b as u128)]);
                k::exec(l, 0, K::mul_nx1, &[V::U(vec![a, b]), V::N(a as u128)]);
                for &c in h.iter().step_by(5) {
                    k::exec(l, 0, K::addmul_nx1, &[V::U(vec![c]), V::U(vec![a]), V::N(b as u128)]);
                    k::exec(l, 0, K::submul_nx1, &[V::U(vec![c]), V::U(vec![a]), V::N(b as u128)]);
                    k::exec(l, 0, K::addmul, &[V::U(vec![c, c]), V::U(vec![a]), V::U(vec![b])]);
                    k::exec(l, 0, K::addmul, &[V::U(vec![c, 0, 0]), V::U(vec![a, b]), V::U(vec![b, a])]);
                }
            }
        });
    }
    let words = b64();
    r.universe("adc / sbb / carrying_add / borrowing_sub on B64^2 x carry", 64, words.len(), |i, l| {
        let a = words[i];
        for &b in &words {
            for c in [0u64, 1, 2, u64::MAX - 1, u64::MAX] {
                l.states(1);
                k::exec(l, 64, K::adc, &[V::N(a as u128), V::N(b as u128), V::N(c as u128)]);
                k::exec(l, 64, K::sbb, &[V::N(a as u128), V::N(b as u128), V::N(c as u128)]);
            }
            for c in [false, true] {
                k::exec(l, 64, K::carrying_add, &[V::N(a as u128), V::N(b as u128), V::B(c)]);
                k::exec(l, 64, K::borrowing_sub, &[V::N(a as u128), V::N(b as u128), V::B(c)]);
            }
        }
    });
    // n x 1 kernels
    let sc: Vec<u64> = if r.is_thorough() { words.clone() } else { words.iter().step_by(3).copied().chain([0, 1, u64::MAX, 1 << 63]).collect() };
    let all: Vec<Limbs> = by_len.iter().flatten().cloned().collect();
    r.universe(&format!("n x 1 kernels: {} slices (len 0..=10) x {} scalars", all.len(), sc.len()), 0, all.len(), |i, l| {
        let s = &all[i];
        let same: &Vec<Limbs> = &by_len[s.len()];
        for &w in &sc {
            l.states(1);
            k::exec(l, 0, K::mul_nx1, &[vu(s), V::N(w as u128)]);
            k::exec(l, 0, K::add_nx1, &[vu(s), V::N(w as u128)]);
        }
        let sc2: Vec<u64> = if same.len() > 30 { vec![0, 1, 2, 1 << 63, u64::MAX - 1, u64::MAX] } else { sc.clone() };
        for a in same {
            for &w in &sc2 {
                l.states(1);
                k::exec(l, 0, K::addmul_nx1, &[vu(s), vu(a), V::N(w as u128)]);
                k::exec(l, 0, K::submul_nx1, &[vu(s), vu(a), V::N(w as u128)]);
            }
            for c in [0u64, 1, 2, 0x9000_0000_0000_0000, u64::MAX - 1, u64::MAX] {
                k::exec(l, 0, K::adc_n, &[vu(s), vu(a), V::N(c as u128)]);
                k::exec(l, 0, K::sbb_n, &[vu(s), vu(a), V::N(c as u128)]);
            }
            k::exec(l, 0, K::cmp, &[vu(s), vu(a)]);
        }
        for amt in 0..64usize {
            l.states(1);
            k::exec(l, 0, K::shift_left_small, &[vu(s), V::n(amt)]);
            k::exec(l, 0, K::shift_right_small, &[vu(s), V::n(amt)]);
        }
    });
    // long slices (beyond the 0..=10 grid): lengths around every multiple of 8 up to 66, where blocked or unrolled
    // loops change shape. cmp: EVERY pair of positions (i, j) at which the two operands differ, in both orders
    const LONG: &[usize] = &[11, 12, 13, 15, 16, 17, 18, 19, 20, 23, 24, 25, 31, 32, 33, 34, 35, 47, 48, 49, 63, 64, 65, 66];
    r.universe("cmp on long slices: all positions (i, j) of two differences, 3 fills", 0, LONG.len(), |li, l| {
        let n = LONG[li];
        for fill in [0u64, 1, u64::MAX - 2] {
            for i in 0..n {
                for j in 0..n {
                    let mut a = vec![fill; n];
                    let mut b = vec![fill; n];
                    a[i] += 1;
                    b[j] += 1;
                    l.states(1);
                    k::exec(l, 0, K::cmp, &[vu(&a), vu(&b)]);
                    // a differs upward at i and downward at j
                    let mut c = vec![fill + 1; n];
                    c[i] += 1;
                    c[j] = fill;
                    k::exec(l, 0, K::cmp, &[vu(&c), vu(&vec![fill + 1; n])]);
                    k::exec(l, 0, K::cmp, &[vu(&vec![fill + 1; n]), vu(&c)]);
                }
            }
        }
    });
    r.universe("carry / n x 1 / shift kernels on long run-shaped slices", 0, LONG.len(), |li, l| {
        let n = LONG[li];
        let sl = run_slices(n, &[0, 1, u64::MAX]);
        let sl: Vec<&Limbs> = sl.iter().step_by((sl.len() / 40).max(1)).collect();
        for s in &sl {
            for a in &sl {
                l.states(1);
                for c in [0u64, 1, 2, 0x9000_0000_0000_0000, u64::MAX - 1, u64::MAX] {
                    k::exec(l, 0, K::adc_n, &[vu(s), vu(a), V::N(c as u128)]);
                    k::exec(l, 0, K::sbb_n, &[vu(s), vu(a), V::N(c as u128)]);
                }
                k::exec(l, 0, K::cmp, &[vu(s), vu(a)]);
                for w in [1u64, u64::MAX] {
                    k::exec(l, 0, K::addmul_nx1, &[vu(s), vu(a), V::N(w as u128)]);
                    k::exec(l, 0, K::submul_nx1, &[vu(s), vu(a), V::N(w as u128)]);
                }
                k::exec(l, 0, K::addmul_n, &[vu(s), vu(a), vu(s)]);
            }
            for w in [0u64, 1, 2, 1 << 63, u64::MAX] {
                k::exec(l, 0, K::mul_nx1, &[vu(s), V::N(w as u128)]);
                k::exec(l, 0, K::add_nx1, &[vu(s), V::N(w as u128)]);
            }
            for amt in [0usize, 1, 31, 32, 63] {
                k::exec(l, 0, K::shift_left_small, &[vu(s), V::n(amt)]);
                k::exec(l, 0, K::shift_right_small, &[vu(s), V::n(amt)]);
            }
            // accumulator shorter / longer than the product
            for a in sl.iter().take(6) {
                k::exec(l, 0, K::addmul, &[vu(s), vu(a), vu(&a[..n / 2].to_vec())]);
                k::exec(l, 0, K::addmul, &[vu(&s[..n / 2].to_vec()), vu(a), vu(s)]);
            }
        }
    });
    // cmp: full A5 product on equal-length slices up to 4 (6 thorough with A3)
    for n in 0..=if r.is_thorough() { 5usize } else { 4 } {
        let al: &[u64] = if n <= 3 { A5 } else { al3 };
        let sn: Vec<Limbs> = slices_upto(n, al).into_iter().filter(|v| v.len() == n).collect();
        r.universe(&format!("cmp on ({} slices of length {n})^2", sn.len()), 0, sn.len(), |i, l| {
            for b in &sn {
                l.states(1);
                k::exec(l, 0, K::cmp, &[vu(&sn[i]), vu(b)]);
            }
        });
    }
}

fn main() {
    let (prop, tier, seed, replay_path) = args_env();
    if let Some(p) = replay_path {
        // the op may belong to either op table
        let code = match load_replay(&p) {
            Ok(c) if Op::by_name(&c.op).is_some() => replay(&p),
            Ok(_) => k::replay(&p),
            Err(e) => {
                eprintln!("cannot load replay: {e}");
                2
            }
        };
        std::process::exit(code);
    }
    let r = Runner::new("mc_kernels", &prop, &tier, seed);
    r.assume("kernels are driven only with arguments that satisfy their documented conditions of use (checked by the harness before each call)");
    r.assume("harness profile = release + debug-assertions + overflow-checks: ruint's own debug_assert!s are active and count as panics");
    r.assume("reference model: BigUint / u128 arithmetic");
    match prop.as_str() {
        "C11" => c11(&r),
        "C12" => c12(&r),
        "C14" => c14(&r),
        "C15" => c15(&r),
        _ => {
            eprintln!("mc_kernels: unknown property '{prop}' (C11 C12 C14 C15)");
            std::process::exit(2);
        }
    }
    let _ = BigInt::zero();
    let _: Option<Uint<1, 1>> = None;
    std::process::exit(r.finish());
}
