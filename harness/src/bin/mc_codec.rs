//! Group `codec`: C16 (codec integrations round-trip and emit reference encodings),
//! C17 (decoders are total on untrusted input).
#![allow(clippy::all)]

use num_bigint::{BigInt, BigUint, Sign};
use num_traits::Zero;
use postgres_types::Type;
use ruint::support::scale::{CompactRefUint, CompactUint};
use ruint::{Bits, Uint};
use vharness::refcodec as rc;
use vharness::*;

const PG_TYPES: [Type; 18] = [
    Type::BOOL, Type::CHAR, Type::INT2, Type::INT4, Type::INT8, Type::OID, Type::FLOAT4, Type::FLOAT8, Type::MONEY, Type::NUMERIC, Type::BYTEA,
    Type::TEXT, Type::VARCHAR, Type::JSON, Type::JSONB, Type::BIT, Type::VARBIT, Type::TIMESTAMP,
];

/// (array type, index of its element type in PG_TYPES)
const PG_ARRAY_TYPES: [(Type, usize); 6] = [(Type::INT8_ARRAY, 4), (Type::NUMERIC_ARRAY, 9), (Type::BYTEA_ARRAY, 10), (Type::TEXT_ARRAY, 11), (Type::BIT_ARRAY, 15), (Type::VARBIT_ARRAY, 16)];

/// `io::Read` / `io::Write` whose answers the harness decides (the environment of the stream codecs):
/// mode 0 = every call transfers at most `k` bytes; mode 1 = the first call transfers at most `k` bytes, later
/// calls as much as asked; mode 2 = at most 3 bytes per call and call number `k` fails once with
/// `ErrorKind::Interrupted` (which `read_exact` / `write_all` must retry).
struct Env {
    data: Vec<u8>,
    pos: usize,
    mode: usize,
    k: usize,
    calls: usize,
}
impl Env {
    fn new(data: Vec<u8>, mode: usize, k: usize) -> Self {
        Env { data, pos: 0, mode, k, calls: 0 }
    }
    fn limit(&mut self) -> std::io::Result<usize> {
        self.calls += 1;
        match self.mode {
            0 => Ok(self.k),
            1 => Ok(if self.calls == 1 { self.k } else { usize::MAX }),
            2 => {
                if self.calls == self.k {
                    Err(std::io::Error::new(std::io::ErrorKind::Interrupted, "interrupted"))
                } else {
                    Ok(3)
                }
            }
            _ => panic!("harness: bad stream mode"),
        }
    }
}
impl std::io::Read for Env {
    fn read(&mut self, buf: &mut [u8]) -> std::io::Result<usize> {
        let n = self.limit()?.min(buf.len()).min(self.data.len() - self.pos);
        buf[..n].copy_from_slice(&self.data[self.pos..self.pos + n]);
        self.pos += n;
        Ok(n)
    }
}
impl std::io::Write for Env {
    fn write(&mut self, buf: &[u8]) -> std::io::Result<usize> {
        let n = self.limit()?.min(buf.len());
        self.data.extend_from_slice(&buf[..n]);
        Ok(n)
    }
    fn flush(&mut self) -> std::io::Result<()> {
        Ok(())
    }
}

/// SCALE `Input` that does not know how much is left (`remaining_len` answers `None`), as a network stream would.
struct OpaqueInput<'a>(&'a [u8]);
impl parity_scale_codec::Input for OpaqueInput<'_> {
    fn remaining_len(&mut self) -> Result<Option<usize>, parity_scale_codec::Error> {
        Ok(None)
    }
    fn read(&mut self, into: &mut [u8]) -> Result<(), parity_scale_codec::Error> {
        if into.len() > self.0.len() {
            return Err("not enough data".into());
        }
        into.copy_from_slice(&self.0[..into.len()]);
        self.0 = &self.0[into.len()..];
        Ok(())
    }
}

fn opt<T: IntoV, E>(r: Result<T, E>) -> V {
    match r {
        Ok(x) => V::some(x.into_v()),
        Err(_) => V::None,
    }
}

define_ops! {
    // ------------------------------------------------------------ encoders (C16)
    json_enc = |a: U| serde_json::to_string(&a).map(String::into_bytes).map_err(|_| ());
    json_bits_enc = |a: U| serde_json::to_string(&Bits::from(a)).map(String::into_bytes).map_err(|_| ());
    bincode_enc = |a: U| bincode::serialize(&a).map_err(|_| ());
    bincode_bits_enc = |a: U| bincode::serialize(&Bits::from(a)).map_err(|_| ());
    rlp_enc = |a: U| rlp::encode(&a).to_vec();
    rlp_bits_enc = |a: U| rlp::encode(&Bits::from(a)).to_vec();
    alloy_enc = |a: U| { let mut o = vec![]; alloy_rlp::Encodable::encode(&a, &mut o); (o, alloy_rlp::Encodable::length(&a), <Uint<B, L> as alloy_rlp::MaxEncodedLenAssoc>::LEN) };
    fastrlp03_enc = |a: U| { let mut o = vec![]; fastrlp_03::Encodable::encode(&a, &mut o); (o, fastrlp_03::Encodable::length(&a), <Uint<B, L> as fastrlp_03::MaxEncodedLenAssoc>::LEN) };
    fastrlp04_enc = |a: U| { let mut o = vec![]; fastrlp_04::Encodable::encode(&a, &mut o); (o, fastrlp_04::Encodable::length(&a), <Uint<B, L> as fastrlp_04::MaxEncodedLenAssoc>::LEN) };
    scale_enc = |a: U| (parity_scale_codec::Encode::encode(&a), parity_scale_codec::Encode::size_hint(&a), <Uint<B, L> as parity_scale_codec::MaxEncodedLen>::max_encoded_len(), parity_scale_codec::Encode::encoded_size(&a));
    compact_enc = |a: U| (parity_scale_codec::Encode::encode(&CompactRefUint(&a)), parity_scale_codec::Encode::size_hint(&CompactRefUint(&a)));
    // the route `#[codec(compact)]` takes on a struct field: HasCompact::Type -> EncodeAsRef::RefType::from(&field)
    compact_hc_enc = |a: U| { let r = <<<Uint<B, L> as parity_scale_codec::HasCompact>::Type as parity_scale_codec::EncodeAsRef<'_, Uint<B, L>>>::RefType as From<&Uint<B, L>>>::from(&a); (parity_scale_codec::Encode::encode(&r), parity_scale_codec::Encode::size_hint(&r)) };
    ssz_enc = |a: U| (ssz::Encode::as_ssz_bytes(&a), ssz::Encode::ssz_bytes_len(&a), <Uint<B, L> as ssz::Encode>::ssz_fixed_len(), <Uint<B, L> as ssz::Encode>::is_ssz_fixed_len());
    borsh_enc = |a: U| borsh::to_vec(&a).map_err(|_| ());
    borsh_bits_enc = |a: U| borsh::to_vec(&Bits::from(a)).map_err(|_| ());
    borsh_env_enc = |a: U, mode: N, k: N| { let mut w = Env::new(vec![], mode, k); borsh::BorshSerialize::serialize(&a, &mut w).map(|_| w.data).map_err(|_| ()) };
    // context-specific tagging (how an INTEGER sits inside real ASN.1 structures): IMPLICIT hands the context-specific header
    // straight to decode_value, EXPLICIT wraps a complete INTEGER; and OPTIONAL
    der_ctx = |a: U| { use der::asn1::ContextSpecific; use der::{Decode, Encode, TagMode, TagNumber}; let imp = ContextSpecific { tag_number: TagNumber::N1, tag_mode: TagMode::Implicit, value: a }.to_der(); let exp = ContextSpecific { tag_number: TagNumber::N2, tag_mode: TagMode::Explicit, value: a }.to_der(); let back_i = imp.as_ref().ok().and_then(|b| { let mut r = der::SliceReader::new(b).ok()?; ContextSpecific::<Uint<B, L>>::decode_implicit(&mut r, TagNumber::N1).ok()?.map(|c| c.value) }); let back_e = exp.as_ref().ok().and_then(|b| { let mut r = der::SliceReader::new(b).ok()?; ContextSpecific::<Uint<B, L>>::decode_explicit(&mut r, TagNumber::N2).ok()?.map(|c| c.value) }); let o = Some(a).to_der().ok().and_then(|b| Option::<Uint<B, L>>::from_der(&b).ok().flatten()); (opt(imp), opt(exp), back_i, back_e, o) };
    der_enc = |a: U| (opt(der::Encode::to_der(&a)), opt(der::Encode::encoded_len(&a).map(|l| u32::from(l) as usize)), opt(der::EncodeValue::value_len(&a).map(|l| u32::from(l) as usize)));
    der_any_enc = |a: U| opt(der::Encode::to_der(&der::asn1::Any::from(&a)));
    der_int_enc = |a: U| opt(der::Encode::to_der(&der::asn1::Int::from(&a)));
    der_uint_enc = |a: U| opt(der::Encode::to_der(&der::asn1::Uint::from(&a)));
    biguint_from = |a: U| (BigUint::from(a).to_bytes_le(), BigUint::from(&a).to_bytes_le());
    bigint_from = |a: U| { let x = BigInt::from(a); (x.sign() != Sign::Minus, x.to_bytes_le().1, BigInt::from(&a).to_bytes_le().1) };
    pg_to_sql = |a: U, t: N| { let mut out = bytes::BytesMut::new(); match postgres_types::ToSql::to_sql(&a, &PG_TYPES[t], &mut out) { Ok(_) => V::some(V::Bytes(out.to_vec())), Err(_) => V::None } };
    // two values written one after the other into a buffer that already holds data (postgres writes every column / array
    // element into the same BytesMut), and a Vec<Uint> as a postgres array
    pg_to_sql_seq = |a: U, b: U, t: N| { let mut out = bytes::BytesMut::new(); out.extend_from_slice(&[0xEE, 0xDD, 0xCC]); let r1 = postgres_types::ToSql::to_sql(&a, &PG_TYPES[t], &mut out).is_ok(); let l1 = out.len(); let r2 = postgres_types::ToSql::to_sql(&b, &PG_TYPES[t], &mut out).is_ok(); (r1, l1, r2, out.to_vec()) };
    pg_array = |a: U, b: U, t: N| { let mut out = bytes::BytesMut::new(); out.extend_from_slice(&[0xEE]); let v = vec![a, b]; let r = postgres_types::ToSql::to_sql(&v, &PG_ARRAY_TYPES[t].0, &mut out).is_ok(); let back = if r { <Vec<Uint<B, L>> as postgres_types::FromSql>::from_sql(&PG_ARRAY_TYPES[t].0, &out[1..]).ok().map(lst) } else { None }; (r, out.to_vec(), back) };
    pg_accepts = |t: N| (<Uint<B, L> as postgres_types::ToSql>::accepts(&PG_TYPES[t]), <Uint<B, L> as postgres_types::FromSql>::accepts(&PG_TYPES[t]));
    // the caller's output buffer: a fixed slice of exactly the advertised length inside a larger sentinel-filled array
    // (`&mut [u8]` as BufMut), a BytesMut with `cap` bytes of capacity and 2 bytes already in it, DER into slices that are
    // too short / exact / longer, SCALE through `using_encoded` and a byte-at-a-time Output
    alloy_slice_enc = |a: U| { let n = alloy_rlp::Encodable::length(&a); let mut buf = vec![0xEEu8; n + 4]; { let mut cur = &mut buf[2..2 + n]; alloy_rlp::Encodable::encode(&a, &mut cur); assert!(cur.is_empty(), "bytes written != length()"); } buf };
    fastrlp04_slice_enc = |a: U| { let n = fastrlp_04::Encodable::length(&a); let mut buf = vec![0xEEu8; n + 4]; { let mut cur = &mut buf[2..2 + n]; fastrlp_04::Encodable::encode(&a, &mut cur); assert!(cur.is_empty(), "bytes written != length()"); } buf };
    alloy_bytesmut_enc = |a: U, cap: N| { let mut o = bytes::BytesMut::with_capacity(cap); o.extend_from_slice(&[0xEE, 0xDD]); alloy_rlp::Encodable::encode(&a, &mut o); alloy_rlp::Encodable::encode(&a, &mut o); o.to_vec() };
    fastrlp03_bytesmut_enc = |a: U, cap: N| { let mut o = bytes::BytesMut::with_capacity(cap); o.extend_from_slice(&[0xEE, 0xDD]); fastrlp_03::Encodable::encode(&a, &mut o); fastrlp_03::Encodable::encode(&a, &mut o); o.to_vec() };
    der_slice_enc = |a: U, n: N| { let mut buf = vec![0xEEu8; n]; let r = der::Encode::encode_to_slice(&a, &mut buf).map(|s| s.to_vec()).ok(); (r, buf) };
    scale_outputs_enc = |a: U| { struct One(Vec<u8>, usize); impl parity_scale_codec::Output for One { fn write(&mut self, b: &[u8]) { self.1 += 1; self.0.extend_from_slice(b); } } let mut o = One(vec![0xEE], 0); parity_scale_codec::Encode::encode_to(&a, &mut o); let mut c = One(vec![0xEE], 0); if B < 536 { parity_scale_codec::Encode::encode_to(&CompactRefUint(&a), &mut c); } (parity_scale_codec::Encode::using_encoded(&a, |b| b.to_vec()), o.0, if B < 536 { parity_scale_codec::Encode::using_encoded(&CompactRefUint(&a), |b| b.to_vec()) } else { vec![] }, c.0) };
    // two values written back to back into ONE pre-filled buffer through the streaming APIs (multi-step sequence)
    seq_alloy = |a: U, b: U| { let mut o = vec![0xEEu8]; alloy_rlp::Encodable::encode(&a, &mut o); alloy_rlp::Encodable::encode(&b, &mut o); o };
    seq_fastrlp03 = |a: U, b: U| { let mut o = vec![0xEEu8]; fastrlp_03::Encodable::encode(&a, &mut o); fastrlp_03::Encodable::encode(&b, &mut o); o };
    seq_fastrlp04 = |a: U, b: U| { let mut o = vec![0xEEu8]; fastrlp_04::Encodable::encode(&a, &mut o); fastrlp_04::Encodable::encode(&b, &mut o); o };
    seq_rlp = |a: U, b: U| { let mut st = rlp::RlpStream::new_list(2); st.append(&a); st.append(&b); st.out().to_vec() };
    seq_scale = |a: U, b: U| { let mut o = vec![0xEEu8]; parity_scale_codec::Encode::encode_to(&a, &mut o); parity_scale_codec::Encode::encode_to(&b, &mut o); o };
    seq_compact = |a: U, b: U| { let mut o = vec![0xEEu8]; parity_scale_codec::Encode::encode_to(&CompactRefUint(&a), &mut o); parity_scale_codec::Encode::encode_to(&CompactRefUint(&b), &mut o); o };
    seq_ssz = |a: U, b: U| { let mut o = vec![0xEEu8]; ssz::Encode::ssz_append(&a, &mut o); ssz::Encode::ssz_append(&b, &mut o); o };
    seq_borsh = |a: U, b: U| { let mut o = vec![0xEEu8]; borsh::BorshSerialize::serialize(&a, &mut o).unwrap(); borsh::BorshSerialize::serialize(&b, &mut o).unwrap(); o };
    seq_bincode = |a: U, b: U| bincode::serialize(&(a, b)).map_err(|_| ());
    seq_json = |a: U, b: U| serde_json::to_string(&(a, b)).map(String::into_bytes).map_err(|_| ());
    seq_der = |a: U, b: U| { let mut o = vec![0xEEu8]; der::Encode::encode_to_vec(&a, &mut o).unwrap(); der::Encode::encode_to_vec(&b, &mut o).unwrap(); o };
    // sequential decoding of two items from one buffer (cursor decoders)
    seq_alloy_dec = |s: BY| { let mut b = &s[..]; let x = <Uint<B, L> as alloy_rlp::Decodable>::decode(&mut b); let y = <Uint<B, L> as alloy_rlp::Decodable>::decode(&mut b); (opt(x), opt(y), b.len()) };
    seq_fastrlp04_dec = |s: BY| { let mut b = &s[..]; let x = <Uint<B, L> as fastrlp_04::Decodable>::decode(&mut b); let y = <Uint<B, L> as fastrlp_04::Decodable>::decode(&mut b); (opt(x), opt(y), b.len()) };
    seq_scale_dec = |s: BY| { let mut b = &s[..]; let x = <Uint<B, L> as parity_scale_codec::Decode>::decode(&mut b); let y = <Uint<B, L> as parity_scale_codec::Decode>::decode(&mut b); (opt(x), opt(y), b.len()) };
    seq_compact_dec = |s: BY| { let mut b = &s[..]; let x = <CompactUint<B, L> as parity_scale_codec::Decode>::decode(&mut b).map(|x| x.0); let y = <CompactUint<B, L> as parity_scale_codec::Decode>::decode(&mut b).map(|x| x.0); (opt(x), opt(y), b.len()) };
    seq_borsh_dec = |s: BY| { let mut b = &s[..]; let x = <Uint<B, L> as borsh::BorshDeserialize>::deserialize_reader(&mut b); let y = <Uint<B, L> as borsh::BorshDeserialize>::deserialize_reader(&mut b); (opt(x), opt(y), b.len()) };
    seq_bincode_dec = |s: BY| opt(bincode::deserialize::<(Uint<B, L>, Uint<B, L>)>(&s));
    seq_json_dec = |s: BY| opt(serde_json::from_slice::<(Uint<B, L>, Uint<B, L>)>(&s));
    seq_rlp_dec = |s: BY| opt(rlp::decode_list::<Uint<B, L>>(&s).into_iter().map(Ok::<_, ()>).collect::<Result<Vec<_>, ()>>().map(|v| V::L(v.into_iter().map(|x| x.into_v()).collect())));
    seq_ssz_vec = |a: U, b: U| { let v = vec![a, b]; let e = ssz::Encode::as_ssz_bytes(&v); let d = <Vec<Uint<B, L>> as ssz::Decode>::from_ssz_bytes(&e).ok().map(|x| V::L(x.into_iter().map(|y| y.into_v()).collect())); (e, d) };
    // ------------------------------------------------------------ containers (C16 / C17): the way the codecs are used in
    // practice - Vec / array / Option / tuple of Uint - reaches the PROVIDED methods and bulk hooks of the codec traits
    // (borsh vec_from_reader / array_from_reader, SCALE decode_into / skip / encoded_fixed_size, ssz fixed-length lists, ...)
    c_borsh_enc = |v: US| (opt(borsh::to_vec(&v)), if v.len() == 2 { opt(borsh::to_vec(&[v[0], v[1]])) } else { V::None }, opt(borsh::to_vec(&v.first().copied())));
    c_scale_enc = |v: US| (parity_scale_codec::Encode::encode(&v), if v.len() == 2 { V::some(parity_scale_codec::Encode::encode(&[v[0], v[1]]).into_v()) } else { V::None }, parity_scale_codec::Encode::encode(&v.first().copied()), if v.len() == 2 { V::some(parity_scale_codec::Encode::encode(&(v[0], v[1])).into_v()) } else { V::None }, parity_scale_codec::Encode::encoded_size(&v));
    c_alloy_enc = |v: US| { let mut o = vec![0xEEu8]; alloy_rlp::Encodable::encode(&v, &mut o); (o, alloy_rlp::Encodable::length(&v)) };
    c_json_enc = |v: US| (opt(serde_json::to_vec(&v)), opt(serde_json::to_vec(&v.first().copied())));
    c_bincode_enc = |v: US| (opt(bincode::serialize(&v)), opt(bincode::serialize(&v.first().copied())));
    c_borsh_vec_dec = |s: BY| opt(borsh::from_slice::<Vec<Uint<B, L>>>(&s).map(lst));
    c_borsh_vec_reader_dec = |s: BY| opt(borsh::from_reader::<_, Vec<Uint<B, L>>>(&mut Env::new(s, 0, 5)).map(lst));
    c_borsh_arr_dec = |s: BY| opt(borsh::from_slice::<[Uint<B, L>; 2]>(&s).map(|a| lst(a.to_vec())));
    c_borsh_opt_dec = |s: BY| opt(borsh::from_slice::<Option<Uint<B, L>>>(&s).map(|a| lst(a.into_iter().collect())));
    c_scale_vec_dec = |s: BY| scale_vec_by_bits(B, false, &s);
    c_scale_arr_dec = |s: BY| opt(<[Uint<B, L>; 2] as parity_scale_codec::DecodeAll>::decode_all(&mut &s[..]).map(|a| lst(a.to_vec())));
    c_scale_opt_dec = |s: BY| opt(<Option<Uint<B, L>> as parity_scale_codec::DecodeAll>::decode_all(&mut &s[..]).map(|a| lst(a.into_iter().collect())));
    c_scale_tuple_dec = |s: BY| opt(<(Uint<B, L>, Uint<B, L>) as parity_scale_codec::DecodeAll>::decode_all(&mut &s[..]).map(|a| lst(vec![a.0, a.1])));
    c_scale_vec_compact_dec = |s: BY| scale_vec_by_bits(B, true, &s);
    c_alloy_vec_dec = |s: BY| { let mut b = &s[..]; let r = <Vec<Uint<B, L>> as alloy_rlp::Decodable>::decode(&mut b); (opt(r.map(lst)), s.len() - b.len()) };
    c_ssz_vec_dec = |s: BY| opt(<Vec<Uint<B, L>> as ssz::Decode>::from_ssz_bytes(&s).map(lst));
    c_json_vec_dec = |s: BY| opt(serde_json::from_slice::<Vec<Uint<B, L>>>(&s).map(lst));
    c_json_opt_dec = |s: BY| opt(serde_json::from_slice::<Option<Uint<B, L>>>(&s).map(|a| lst(a.into_iter().collect())));
    c_bincode_vec_dec = |s: BY| { use bincode::Options; opt(bincode::DefaultOptions::new().with_fixint_encoding().with_limit(1 << 20).deserialize::<Vec<Uint<B, L>>>(&s).map(lst)) };
    c_bincode_opt_dec = |s: BY| { use bincode::Options; opt(bincode::DefaultOptions::new().with_fixint_encoding().with_limit(1 << 20).deserialize::<Option<Uint<B, L>>>(&s).map(|a| lst(a.into_iter().collect()))) };
    // ------------------------------------------------------------ decoders (C16 round trips, C17 totality)
    json_dec = |s: BY| opt(serde_json::from_slice::<Uint<B, L>>(&s));
    // the same text through the other routes into the visitor: a byte-at-a-time stream, and a parsed `Value`
    json_reader_dec = |s: BY| opt(serde_json::from_reader::<_, Uint<B, L>>(Env::new(s, 0, 1)));
    json_value_dec = |s: BY| opt(serde_json::from_slice::<serde_json::Value>(&s).and_then(serde_json::from_value::<Uint<B, L>>));
    json_bits_dec = |s: BY| opt(serde_json::from_slice::<Bits<B, L>>(&s));
    // serde's own value deserializers (human readable by default): the visitor entry points no text format reaches
    // (visit_u128), and the owned / borrowed string variants
    serde_u128_dec = |w: W128| { use serde::de::IntoDeserializer; let d: serde::de::value::U128Deserializer<serde::de::value::Error> = w.into_deserializer(); opt(<Uint<B, L> as serde::Deserialize>::deserialize(d)) };
    serde_u64_dec = |w: W| { use serde::de::IntoDeserializer; let d: serde::de::value::U64Deserializer<serde::de::value::Error> = w.into_deserializer(); (opt(<Uint<B, L> as serde::Deserialize>::deserialize(d)), { let d: serde::de::value::U32Deserializer<serde::de::value::Error> = (w as u32).into_deserializer(); opt(<Uint<B, L> as serde::Deserialize>::deserialize(d)) }, { let d: serde::de::value::U8Deserializer<serde::de::value::Error> = (w as u8).into_deserializer(); opt(<Bits<B, L> as serde::Deserialize>::deserialize(d)) }) };
    serde_str_dec = |t: ST| { use serde::de::IntoDeserializer; let a = { let d: serde::de::value::StrDeserializer<serde::de::value::Error> = t.as_str().into_deserializer(); opt(<Uint<B, L> as serde::Deserialize>::deserialize(d)) }; let b = { let d: serde::de::value::StringDeserializer<serde::de::value::Error> = t.clone().into_deserializer(); opt(<Uint<B, L> as serde::Deserialize>::deserialize(d)) }; let c = { let d = serde::de::value::BorrowedStrDeserializer::<serde::de::value::Error>::new(t.as_str()); opt(<Uint<B, L> as serde::Deserialize>::deserialize(d)) }; (a, b, c) };
    bincode_dec = |s: BY| opt(bincode::deserialize::<Uint<B, L>>(&s));
    // serde's in-place entry point (what Vec<T>::deserialize_in_place uses when a buffer is refilled): whatever it leaves in
    // the destination - also after an error - must be a canonical value
    bincode_in_place = |a: U, s: BY| { use bincode::Options; let mut place = a; let mut de = bincode::Deserializer::from_slice(&s, bincode::DefaultOptions::new().with_fixint_encoding().allow_trailing_bytes()); let ok = <Uint<B, L> as serde::Deserialize>::deserialize_in_place(&mut de, &mut place).is_ok(); let mut pb = Bits::from(a); let mut de2 = bincode::Deserializer::from_slice(&s, bincode::DefaultOptions::new().with_fixint_encoding().allow_trailing_bytes()); let ok2 = <Bits<B, L> as serde::Deserialize>::deserialize_in_place(&mut de2, &mut pb).is_ok(); let mut pj = a; let okj = { let mut dj = serde_json::Deserializer::from_slice(&s); <Uint<B, L> as serde::Deserialize>::deserialize_in_place(&mut dj, &mut pj).is_ok() }; (ok, place, ok2, pb.into_inner(), okj, pj) };
    bincode_reader_dec = |s: BY| { use bincode::Options; opt(bincode::DefaultOptions::new().with_fixint_encoding().allow_trailing_bytes().with_limit(1 << 16).deserialize_from::<_, Uint<B, L>>(Env::new(s, 0, 3))) };
    bincode_bits_dec = |s: BY| opt(bincode::deserialize::<Bits<B, L>>(&s));
    rlp_dec = |s: BY| opt(rlp::decode::<Uint<B, L>>(&s));
    rlp_bits_dec = |s: BY| opt(rlp::decode::<Bits<B, L>>(&s));
    alloy_dec = |s: BY| { let mut b = &s[..]; let r = <Uint<B, L> as alloy_rlp::Decodable>::decode(&mut b); (opt(r), s.len() - b.len()) };
    fastrlp03_dec = |s: BY| { let mut b = &s[..]; let r = <Uint<B, L> as fastrlp_03::Decodable>::decode(&mut b); (opt(r), s.len() - b.len()) };
    fastrlp04_dec = |s: BY| { let mut b = &s[..]; let r = <Uint<B, L> as fastrlp_04::Decodable>::decode(&mut b); (opt(r), s.len() - b.len()) };
    scale_dec = |s: BY| { let mut b = &s[..]; let r = <Uint<B, L> as parity_scale_codec::Decode>::decode(&mut b); (opt(r), s.len() - b.len()) };
    scale_opaque_dec = |s: BY| { let mut b = OpaqueInput(&s); let r = <Uint<B, L> as parity_scale_codec::Decode>::decode(&mut b); (opt(r), s.len() - b.0.len()) };
    compact_opaque_dec = |s: BY| { let mut b = OpaqueInput(&s); let r = <CompactUint<B, L> as parity_scale_codec::Decode>::decode(&mut b).map(|x| x.0); (opt(r), s.len() - b.0.len()) };
    compact_hc_dec = |s: BY| { let mut b = &s[..]; let r = <<Uint<B, L> as parity_scale_codec::HasCompact>::Type as parity_scale_codec::Decode>::decode(&mut b).map(|x| { let back = parity_scale_codec::CompactAs::decode_from(*parity_scale_codec::CompactAs::encode_as(&x)).map(|c: CompactUint<B, L>| c.0); let u: Uint<B, L> = x.into(); assert!(back.ok() == Some(u), "CompactAs round trip"); let c2: CompactUint<B, L> = u.into(); assert!(c2.0 == u); u }); (opt(r), s.len() - b.len()) };
    compact_dec = |s: BY| { let mut b = &s[..]; let r = <CompactUint<B, L> as parity_scale_codec::Decode>::decode(&mut b).map(|x| x.0); (opt(r), s.len() - b.len()) };
    ssz_dec = |s: BY| opt(<Uint<B, L> as ssz::Decode>::from_ssz_bytes(&s));
    borsh_dec = |s: BY| opt(borsh::from_slice::<Uint<B, L>>(&s));
    borsh_bits_dec = |s: BY| opt(borsh::from_slice::<Bits<B, L>>(&s));
    borsh_env_dec = |s: BY, mode: N, k: N| { let mut rd = Env::new(s, mode, k); let r = <Uint<B, L> as borsh::BorshDeserialize>::deserialize_reader(&mut rd); (opt(r), rd.pos) };
    // digit-list parsers: every input byte is one digit
    base_le_dec = |s: BY, b: W| opt(Uint::<B, L>::from_base_le(b, s.iter().map(|x| *x as u64)));
    base_be_dec = |s: BY, b: W| opt(Uint::<B, L>::from_base_be(b, s.iter().map(|x| *x as u64)));
    borsh_reader_dec = |s: BY| { let mut b = &s[..]; let r = <Uint<B, L> as borsh::BorshDeserialize>::deserialize_reader(&mut b); (opt(r), s.len() - b.len()) };
    der_dec = |s: BY| opt(<Uint<B, L> as der::Decode>::from_der(&s));
    der_anyref_dec = |s: BY| opt(<der::asn1::AnyRef as der::Decode>::from_der(&s).and_then(Uint::<B, L>::try_from));
    der_any_dec = |s: BY| opt(<der::asn1::Any as der::Decode>::from_der(&s).and_then(|x| Uint::<B, L>::try_from(&x)));
    der_intref_dec = |s: BY| opt(<der::asn1::IntRef as der::Decode>::from_der(&s).and_then(Uint::<B, L>::try_from));
    der_int_dec = |s: BY| opt(<der::asn1::Int as der::Decode>::from_der(&s).and_then(|x| Uint::<B, L>::try_from(&x)));
    der_uintref_dec = |s: BY| opt(<der::asn1::UintRef as der::Decode>::from_der(&s).and_then(Uint::<B, L>::try_from));
    der_uint_dec = |s: BY| opt(<der::asn1::Uint as der::Decode>::from_der(&s).and_then(|x| Uint::<B, L>::try_from(&x)));
    pg_from_sql = |t: N, s: BY| opt(<Uint<B, L> as postgres_types::FromSql>::from_sql(&PG_TYPES[t], &s));
    biguint_try = |s: BY| (Uint::<B, L>::try_from(BigUint::from_bytes_be(&s)), Uint::<B, L>::try_from(&BigUint::from_bytes_be(&s)));
    bigint_try = |neg: BO, s: BY| { let x = BigInt::from_bytes_be(if neg { Sign::Minus } else { Sign::Plus }, &s); (Uint::<B, L>::try_from(x.clone()), Uint::<B, L>::try_from(&x)) };
    try_from_be_slice = |s: BY| Uint::<B, L>::try_from_be_slice(&s);
    try_from_le_slice = |s: BY| Uint::<B, L>::try_from_le_slice(&s);
    from_str = |s: BY| match std::str::from_utf8(&s) { Ok(t) => opt(t.parse::<Uint<B, L>>()), Err(_) => V::None };
    bits_from_str = |s: BY| match std::str::from_utf8(&s) { Ok(t) => opt(t.parse::<Bits<B, L>>()), Err(_) => V::None };
}

dispatch_widths!(dispatch, call, Op;
    0, 1, 7, 8, 9, 16, 60, 63, 64, 65, 120, 127, 128, 129, 160, 250, 255, 256, 257, 384, 440, 441, 448, 512, 528, 535, 1024, 524352);

fn u(v: &BigUint, bits: usize) -> V {
    V::U(to_limbs(v, bits))
}
fn vu(l: &Limbs) -> V {
    V::U(l.clone())
}
fn by(b: Vec<u8>) -> V {
    V::Bytes(b)
}

/// `got` must be None, or Some(v) with v the denoted value (< 2^bits) [and consumed = `used`]
/// parity-scale-codec refuses at COMPILE time to decode a `Vec<T>` whose items are larger than its preallocation chunk
/// (a const assertion), so `Vec<Uint<524352, _>>` cannot even be instantiated: the SCALE list decoders are reached through
/// a non-generic table over the ordinary widths instead of through the width-generic shim.
fn scale_vec_plain<const B: usize, const L: usize>(s: &[u8]) -> V {
    opt(<Vec<Uint<B, L>> as parity_scale_codec::DecodeAll>::decode_all(&mut &s[..]).map(lst))
}
fn scale_vec_compact<const B: usize, const L: usize>(s: &[u8]) -> V {
    opt(<Vec<CompactUint<B, L>> as parity_scale_codec::DecodeAll>::decode_all(&mut &s[..]).map(|a| lst(a.into_iter().map(|x| x.0).collect())))
}
macro_rules! scale_vec_table {
    ($($w:literal),*) => {
        fn scale_vec_by_bits(bits: usize, compact: bool, s: &[u8]) -> V {
            match bits {
                $( $w => if compact { scale_vec_compact::<$w, { ($w + 63) / 64 }>(s) } else { scale_vec_plain::<$w, { ($w + 63) / 64 }>(s) }, )*
                _ => V::None,
            }
        }
    };
}
scale_vec_table!(0, 1, 7, 8, 9, 16, 60, 63, 64, 65, 120, 127, 128, 129, 160, 250, 255, 256, 257, 384, 440, 441, 448, 512, 528, 535, 1024);

fn lst<const B: usize, const L: usize>(v: Vec<Uint<B, L>>) -> V {
    V::L(v.into_iter().map(|x| x.into_v()).collect())
}

// ---------------------------------------------------------------- containers: reference encodings and lenient readers

fn rlp_list(payload: Vec<u8>) -> Vec<u8> {
    let mut o = if payload.len() < 56 {
        vec![0xc0 + payload.len() as u8]
    } else {
        let l = rc::be_min(&BigUint::from(payload.len()));
        let mut o = vec![0xf7 + l.len() as u8];
        o.extend(l);
        o
    };
    o.extend(payload);
    o
}
/// (container kind, reference encoding of the list) for every container decoder
fn container_ref(kind: Op, vals: &[BigUint], nb: usize) -> Option<Vec<u8>> {
    use Op::*;
    let cat = |f: &dyn Fn(&BigUint) -> Vec<u8>| -> Vec<u8> { vals.iter().flat_map(|v| f(v)).collect() };
    let le = |v: &BigUint| rc::fixed_le(v, nb);
    let sc = |v: &BigUint| rc::scale_bytes(&rc::fixed_le(v, nb));
    let fits = vals.iter().all(|v| v.bits() as usize <= 8 * nb);
    if !fits && !matches!(kind, c_alloy_vec_dec | c_json_vec_dec | c_json_opt_dec | c_scale_vec_compact_dec) {
        return None; // the fixed-width item formats cannot even carry such a value
    }
    if kind == c_scale_vec_compact_dec && vals.iter().any(|v| v.bits() >= 536) {
        return None;
    }
    Some(match kind {
        c_borsh_vec_dec | c_borsh_vec_reader_dec => {
            let mut o = (vals.len() as u32).to_le_bytes().to_vec();
            o.extend(cat(&le));
            o
        }
        c_borsh_arr_dec if vals.len() == 2 => cat(&le),
        c_borsh_opt_dec if vals.len() <= 1 => {
            let mut o = vec![vals.len() as u8];
            o.extend(cat(&le));
            o
        }
        c_scale_vec_dec => {
            let mut o = rc::compact(&BigUint::from(vals.len()));
            o.extend(cat(&sc));
            o
        }
        c_scale_vec_compact_dec => {
            let mut o = rc::compact(&BigUint::from(vals.len()));
            o.extend(cat(&|v| rc::compact(v)));
            o
        }
        c_scale_arr_dec | c_scale_tuple_dec if vals.len() == 2 => cat(&sc),
        c_scale_opt_dec if vals.len() <= 1 => {
            let mut o = vec![vals.len() as u8];
            o.extend(cat(&sc));
            o
        }
        c_alloy_vec_dec => rlp_list(cat(&|v| rc::rlp(v))),
        c_ssz_vec_dec => cat(&le),
        c_json_vec_dec => format!("[{}]", vals.iter().map(rc::json_quantity).collect::<Vec<_>>().join(",")).into_bytes(),
        c_json_opt_dec if vals.len() <= 1 => vals.first().map(rc::json_quantity).unwrap_or("null".into()).into_bytes(),
        c_bincode_vec_dec => {
            let mut o = (vals.len() as u64).to_le_bytes().to_vec();
            o.extend(cat(&|v| rc::bincode(v, nb)));
            o
        }
        c_bincode_opt_dec if vals.len() <= 1 => {
            let mut o = vec![vals.len() as u8];
            o.extend(cat(&|v| rc::bincode(v, nb)));
            o
        }
        _ => return None,
    })
}
/// What the bytes denote as a list under the container format, read leniently item by item (the integers are whatever the
/// item bytes denote); None = structurally malformed / truncated / trailing bytes. Err = no claim.
fn container_denotes(kind: Op, s: &[u8], nb: usize) -> Result<Option<Vec<BigUint>>, ()> {
    use Op::*;
    let fixed = |mut rest: &[u8], n: usize| -> Option<Vec<BigUint>> {
        if nb == 0 || rest.len() != n.checked_mul(nb)? {
            return None;
        }
        let mut o = vec![];
        while !rest.is_empty() {
            o.push(BigUint::from_bytes_le(&rest[..nb]));
            rest = &rest[nb..];
        }
        Some(o)
    };
    let items = |mut rest: &[u8], n: Option<usize>, f: &dyn Fn(&[u8]) -> Option<(BigUint, usize)>| -> Option<Vec<BigUint>> {
        let mut o = vec![];
        loop {
            match n {
                Some(n) if o.len() == n => break,
                None if rest.is_empty() => break,
                _ => {}
            }
            let (v, used) = f(rest)?;
            o.push(v);
            rest = &rest[used..];
        }
        if rest.is_empty() { Some(o) } else { None }
    };
    let scale_item = |b: &[u8]| rc::scale_bytes_denotes(b).map(|x| (x.0, x.2));
    let small = |v: &BigUint| -> Option<usize> { if v.bits() <= 32 { Some(v.iter_u64_digits().next().unwrap_or(0) as usize) } else { None } };
    Ok(match kind {
        c_borsh_vec_dec | c_borsh_vec_reader_dec => {
            if s.len() < 4 {
                None
            } else {
                fixed(&s[4..], u32::from_le_bytes(s[..4].try_into().unwrap()) as usize)
            }
        }
        c_borsh_arr_dec => fixed(s, 2),
        c_borsh_opt_dec => match s.first() {
            Some(0) if s.len() == 1 => Some(vec![]),
            Some(1) => fixed(&s[1..], 1),
            _ => None,
        },
        c_scale_vec_dec | c_scale_vec_compact_dec => match rc::compact_denotes(s) {
            Some((n, used)) => match small(&n) {
                Some(n) => items(&s[used..], Some(n), if kind == c_scale_vec_dec { &scale_item } else { &|b| rc::compact_denotes(b) }),
                None => None,
            },
            None => None,
        },
        c_scale_arr_dec | c_scale_tuple_dec => items(s, Some(2), &scale_item),
        c_scale_opt_dec => match s.first() {
            Some(0) if s.len() == 1 => Some(vec![]),
            Some(1) => items(&s[1..], Some(1), &scale_item),
            _ => None,
        },
        c_alloy_vec_dec => {
            // canonical list header, then canonical string items filling the payload exactly
            let h = match s.first() {
                Some(h) => *h,
                None => return Ok(None),
            };
            let (start, len) = if (0xc0..=0xf7).contains(&h) {
                (1usize, (h - 0xc0) as usize)
            } else if h >= 0xf8 {
                let ll = (h - 0xf7) as usize;
                if s.len() < 1 + ll {
                    return Ok(None);
                }
                if s[1] == 0 {
                    return Err(()); // non-canonical list header: the framing is alloy-rlp's business, no claim
                }
                let mut len = 0usize;
                for &x in &s[1..1 + ll] {
                    len = match len.checked_mul(256).and_then(|l| l.checked_add(x as usize)) {
                        Some(l) => l,
                        None => return Ok(None),
                    };
                }
                if len < 56 {
                    return Err(());
                }
                (1 + ll, len)
            } else {
                return Ok(None);
            };
            let Some(end) = start.checked_add(len) else { return Ok(None) };
            if s.len() != end {
                // the decoder reports what it consumed; trailing bytes are the caller's - compare on the exact list only
                return if s.len() > end { Err(()) } else { Ok(None) };
            }
            items(&s[start..], None, &|b| rc::rlp_denotes(b).filter(|(v, used)| rc::rlp(v) == b[..*used]))
        }
        c_ssz_vec_dec => {
            if nb == 0 || s.len() % nb != 0 {
                None
            } else {
                fixed(s, s.len() / nb)
            }
        }
        c_bincode_vec_dec => {
            if s.len() < 8 {
                None
            } else {
                let n = u64::from_le_bytes(s[..8].try_into().unwrap());
                if n > s.len() as u64 {
                    None
                } else {
                    items(&s[8..], Some(n as usize), &|b| rc::bincode_denotes(b).map(|(v, l)| (v, 8 + l)))
                }
            }
        }
        c_bincode_opt_dec => match s.first() {
            Some(0) if s.len() == 1 => Some(vec![]),
            Some(1) => items(&s[1..], Some(1), &|b| rc::bincode_denotes(b).map(|(v, l)| (v, 8 + l))),
            _ => None,
        },
        _ => return Err(()),
    })
}
const CONTAINER_DECODERS: &[Op] = &[
    Op::c_borsh_vec_dec, Op::c_borsh_vec_reader_dec, Op::c_borsh_arr_dec, Op::c_borsh_opt_dec, Op::c_scale_vec_dec, Op::c_scale_arr_dec, Op::c_scale_opt_dec, Op::c_scale_tuple_dec,
    Op::c_scale_vec_compact_dec, Op::c_alloy_vec_dec, Op::c_ssz_vec_dec, Op::c_json_vec_dec, Op::c_json_opt_dec, Op::c_bincode_vec_dec, Op::c_bincode_opt_dec,
];
fn container_decode_all(l: &mut Local, bits: usize, input: &[u8]) {
    let args = [V::Bytes(input.to_vec())];
    l.states(1);
    for &op in CONTAINER_DECODERS {
        if op == Op::c_scale_vec_compact_dec && bits >= 536 {
            continue;
        }
        exec(l, bits, op, &args);
    }
}
/// C16 for containers: every encoder on the list = reference container encoding; every decoder on the reference encoding
/// returns the list.
fn container_roundtrips(l: &mut Local, bits: usize, list: &[BigUint]) {
    let nb = (bits + 7) / 8;
    let lv = V::L(list.iter().map(|v| u(v, bits)).collect());
    for op in [Op::c_borsh_enc, Op::c_scale_enc, Op::c_alloy_enc, Op::c_json_enc, Op::c_bincode_enc] {
        exec(l, bits, op, &[lv.clone()]);
    }
    for &op in CONTAINER_DECODERS {
        if op == Op::c_scale_vec_compact_dec && bits >= 536 {
            continue;
        }
        let Some(e) = container_ref(op, list, nb) else { continue };
        let args = [V::Bytes(e.clone())];
        let got = l.guard(op.name(), op.src(), bits, &args, || dispatch(bits, op, &args));
        let want = if op == Op::c_alloy_vec_dec { V::T(vec![V::some(lv.clone()), V::n(e.len())]) } else { V::some(lv.clone()) };
        l.record(op.name(), op.src(), bits, &args, got, is(want).nt(true));
    }
}

/// `got` must be None, or Some(v) with v the denoted value (< 2^bits) [and consumed = `used`]
fn may_accept(bits: usize, den: Option<BigUint>, used: Option<usize>, nt: bool) -> Expect {
    let m = pow2(bits);
    let ok_val = den.filter(|v| v < &m).map(|v| V::some(u(&v, bits)));
    match used {
        None => {
            let mut ok = vec![V::None];
            ok.extend(ok_val);
            any_of(ok).nt(nt)
        }
        Some(_) => {
            // (Option, consumed): on rejection the cursor position is unspecified
            let desc = format!("(None, _) or (Some(denoted value), consumed = {used:?}); denoted = {ok_val:?}");
            pred(&desc, move |g| {
                let V::T(t) = g else { return false };
                if t.len() != 2 {
                    return false;
                }
                if t[0] == V::None {
                    return true;
                }
                Some(&t[0]) == ok_val.as_ref() && Some(t[1].as_n() as usize) == used
            })
            .nt(nt)
        }
    }
}

fn pg_text_denotes(s: &[u8]) -> Result<Option<BigUint>, ()> {
    let t = std::str::from_utf8(s).map_err(|_| ())?;
    rc::text_denotes(t)
}
fn from3(r: Result<Option<BigUint>, ()>, bits: usize, nt: bool) -> Expect {
    match r {
        Ok(Some(v)) => may_accept(bits, Some(v), None, nt),
        Ok(None) => dont_care(),
        Err(()) => may_accept(bits, None, None, nt),
    }
}

fn json_denotes(s: &[u8]) -> Result<Option<BigUint>, ()> {
    // tokenisation by serde_json (trusted); the value -> integer mapping is the reference
    let v: serde_json::Value = serde_json::from_slice(s).map_err(|_| ())?;
    match v {
        serde_json::Value::String(t) => rc::text_denotes(&t),
        serde_json::Value::Number(n) => {
            if let Some(x) = n.as_u64() {
                Ok(Some(BigUint::from(x)))
            } else if let Some(f) = n.as_f64() {
                if f >= 0.0 && f.fract() == 0.0 && f < 9007199254740992.0 && n.as_i64().is_none() {
                    Ok(Some(BigUint::from(f as u64)))
                } else {
                    Err(())
                }
            } else {
                Err(())
            }
        }
        _ => Err(()),
    }
}

fn pg_denotes(t: usize, s: &[u8]) -> Result<Option<BigUint>, ()> {
    let ty = &PG_TYPES[t];
    let int = |n: i128| if n < 0 { Err(()) } else { Ok(Some(BigUint::from(n as u128))) };
    match *ty {
        Type::BOOL => match s {
            [0] => Ok(Some(BigUint::zero())),
            [1] => Ok(Some(BigUint::from(1u32))),
            _ => Err(()),
        },
        Type::INT2 => int(i16::from_be_bytes(s.try_into().map_err(|_| ())?) as i128),
        Type::INT4 => int(i32::from_be_bytes(s.try_into().map_err(|_| ())?) as i128),
        Type::INT8 => int(i64::from_be_bytes(s.try_into().map_err(|_| ())?) as i128),
        Type::OID => int(u32::from_be_bytes(s.try_into().map_err(|_| ())?) as i128),
        Type::MONEY => {
            // cents; integral amounts only are integers, other amounts: no claim on the value
            let c = i64::from_be_bytes(s.try_into().map_err(|_| ())?);
            if c % 100 == 0 { int((c / 100) as i128) } else { Ok(None) }
        }
        Type::FLOAT4 | Type::FLOAT8 => {
            let f = if *ty == Type::FLOAT4 { f32::from_be_bytes(s.try_into().map_err(|_| ())?) as f64 } else { f64::from_be_bytes(s.try_into().map_err(|_| ())?) };
            if f.is_nan() || f < 0.0 || f.is_infinite() {
                return Err(());
            }
            if f.fract() == 0.0 {
                // exact integer
                let bits = f.to_bits();
                let e = ((bits >> 52) & 0x7ff) as i64;
                let frac = bits & ((1u64 << 52) - 1);
                if e == 0 {
                    return Ok(Some(BigUint::zero()));
                }
                let mant = frac | (1u64 << 52);
                let ex = e - 1075;
                Ok(Some(if ex >= 0 { BigUint::from(mant) << ex as usize } else { BigUint::from(mant) >> (-ex) as usize }))
            } else {
                Ok(None) // rounding of fractional floats is C18's business
            }
        }
        Type::BYTEA => Ok(Some(BigUint::from_bytes_be(s))),
        Type::BIT | Type::VARBIT => rc::pg_varbit_denotes(s).map(Some).ok_or(()),
        Type::CHAR | Type::TEXT | Type::VARCHAR => pg_text_denotes(s),
        Type::JSON | Type::JSONB => {
            let s = if *ty == Type::JSONB {
                if s.first() != Some(&1) {
                    return Err(());
                }
                &s[1..]
            } else {
                s
            };
            let t = std::str::from_utf8(s).map_err(|_| ())?;
            let t = if t.len() >= 2 && t.starts_with('"') && t.ends_with('"') { &t[1..t.len() - 1] } else { t };
            rc::text_denotes(t)
        }
        Type::NUMERIC => rc::pg_numeric_denotes(s).map(Some).ok_or(()),
        _ => Err(()),
    }
}

/// expected to_sql result: Some(bytes) when the value is representable in the column type, else None
fn pg_encode(t: usize, v: &BigUint, bits: usize) -> Result<Option<Vec<u8>>, ()> {
    // Err(()) = no reference (floats): only "does not panic" is claimed
    let ty = &PG_TYPES[t];
    let fits = |n: u64| v.bits() <= n;
    let low = v.iter_u64_digits().next().unwrap_or(0);
    Ok(match *ty {
        Type::BOOL => fits(1).then(|| vec![low as u8]),
        Type::INT2 => fits(15).then(|| (low as i16).to_be_bytes().to_vec()),
        Type::INT4 => fits(31).then(|| (low as i32).to_be_bytes().to_vec()),
        Type::OID => fits(32).then(|| (low as u32).to_be_bytes().to_vec()),
        Type::INT8 => fits(63).then(|| (low as i64).to_be_bytes().to_vec()),
        Type::MONEY => (fits(63) && (low as i64).checked_mul(100).is_some()).then(|| ((low as i64) * 100).to_be_bytes().to_vec()),
        Type::FLOAT4 | Type::FLOAT8 => return Err(()),
        Type::BYTEA => Some(rc::fixed_be(v, (bits + 7) / 8)),
        Type::BIT => (bits > 0).then(|| rc::pg_varbit(v, bits)),
        Type::VARBIT => Some(rc::pg_varbit(v, bits)),
        Type::CHAR | Type::TEXT | Type::VARCHAR => Some(format!("0x{}", v.to_str_radix(16)).into_bytes()),
        Type::JSON => Some(rc::json_quantity(v).into_bytes()),
        Type::JSONB => {
            let mut e = vec![1u8];
            e.extend(rc::json_quantity(v).into_bytes());
            Some(e)
        }
        Type::NUMERIC => Some(rc::pg_numeric(v)),
        _ => None,
    })
}

fn hint_ok(len: usize, hint: &V) -> bool {
    let h = hint.as_n() as usize;
    len <= h && h <= len + 4
}

fn model(bits: usize, op: Op, args: &[V]) -> Expect {
    use Op::*;
    let m = pow2(bits);
    let nb = (bits + 7) / 8;
    let a = || big(args[0].limbs());
    let s = || args[0].as_bytes();
    match op {
        // ---------------------------------------------------------------- encoders
        json_enc => is(V::ok(by(rc::json_quantity(&a()).into_bytes()))).nt(true),
        json_bits_enc => {
            let e = if bits == 0 { "\"0x0\"".to_string() } else { format!("\"0x{:0>w$}\"", a().to_str_radix(16), w = nb * 2) };
            is(V::ok(by(e.into_bytes()))).nt(true)
        }
        bincode_enc | bincode_bits_enc => is(V::ok(by(rc::bincode(&a(), nb)))).nt(true),
        rlp_enc => is(by(rc::rlp(&a()))).nt(true),
        rlp_bits_enc => is(by(rc::rlp_string(&rc::fixed_be(&a(), nb)))).nt(true),
        alloy_enc | fastrlp03_enc | fastrlp04_enc => {
            let e = rc::rlp(&a());
            let len = e.len();
            // the advertised maximum must not be below a produced length
            let max_all = rc::rlp(&(&m - 1u32)).len().max(1);
            pred(&format!("(reference RLP {e:02x?}, length() = {len}, LEN >= {max_all})"), move |g| {
                let V::T(t) = g else { return false };
                t.len() == 3 && t[0] == V::Bytes(e.clone()) && t[1] == V::n(len) && t[2].as_n() as usize >= max_all
            })
            .nt(true)
        }
        scale_enc => {
            let e = rc::scale_bytes(&rc::fixed_le(&a(), nb));
            let len = e.len();
            pred(&format!("(compact-length-prefixed LE bytes {e:02x?}, len <= size_hint <= len+4, max_encoded_len >= {len}, encoded_size = {len})"), move |g| {
                let V::T(t) = g else { return false };
                t.len() == 4 && t[0] == V::Bytes(e.clone()) && hint_ok(len, &t[1]) && t[2].as_n() as usize >= len && t[3] == V::n(len)
            })
            .nt(true)
        }
        compact_enc | compact_hc_enc => {
            let e = rc::compact(&a());
            let len = e.len();
            pred(&format!("(SCALE compact {e:02x?}, len <= size_hint <= len+4)"), move |g| {
                let V::T(t) = g else { return false };
                t.len() == 2 && t[0] == V::Bytes(e.clone()) && hint_ok(len, &t[1])
            })
            .nt(true)
        }
        ssz_enc => is(V::T(vec![by(rc::fixed_le(&a(), nb)), V::n(nb), V::n(nb), V::B(true)])).nt(true),
        borsh_enc | borsh_bits_enc | borsh_env_enc => is(V::ok(by(rc::fixed_le(&a(), nb)))).nt(true),
        der_enc => {
            let e = rc::der(&a());
            let cl = rc::der_content(&a()).len();
            is(V::T(vec![V::some(by(e.clone())), V::some(V::n(e.len())), V::some(V::n(cl))])).nt(true)
        }
        alloy_slice_enc | fastrlp04_slice_enc => {
            let mut e = vec![0xEEu8, 0xEE];
            e.extend(rc::rlp(&a()));
            e.extend([0xEE, 0xEE]);
            is(by(e)).nt(true)
        }
        alloy_bytesmut_enc | fastrlp03_bytesmut_enc => {
            let mut e = vec![0xEEu8, 0xDD];
            e.extend(rc::rlp(&a()));
            e.extend(rc::rlp(&a()));
            is(by(e)).nt(true)
        }
        der_slice_enc => {
            let n = args[1].as_n() as usize;
            let e = rc::der(&a());
            if n < e.len() {
                // too short: an error, whatever was written to the caller's slice stays inside it
                pred("(None, _) - the slice is too short", |g| matches!(g, V::T(t) if t.len() == 2 && t[0] == V::None)).nt(true)
            } else {
                let mut buf = vec![0xEEu8; n];
                buf[..e.len()].copy_from_slice(&e);
                is(V::T(vec![V::some(by(e)), by(buf)])).nt(true)
            }
        }
        scale_outputs_enc => {
            let f = rc::scale_bytes(&rc::fixed_le(&a(), nb));
            let mut f1 = vec![0xEEu8];
            f1.extend(&f);
            if bits >= 536 {
                return pred("fixed form through using_encoded and a custom Output (compact form not defined at this width)", move |g| matches!(g, V::T(t) if t.len() == 4 && t[0] == V::Bytes(f.clone()) && t[1] == V::Bytes(f1.clone()))).nt(true);
            }
            let c = rc::compact(&a());
            let mut c1 = vec![0xEEu8];
            c1.extend(&c);
            is(V::T(vec![by(f), by(f1), by(c), by(c1)])).nt(true)
        }
        der_ctx => {
            let c = rc::der_content(&a());
            let mut imp = vec![0x81u8];
            imp.extend(rc::der_len(c.len()));
            imp.extend(&c);
            let inner = rc::der(&a());
            let mut exp = vec![0xa2u8];
            exp.extend(rc::der_len(inner.len()));
            exp.extend(&inner);
            let v = u(&a(), bits);
            is(V::T(vec![V::some(by(imp)), V::some(by(exp)), V::some(v.clone()), V::some(v.clone()), V::some(v)])).nt(true)
        }
        der_any_enc | der_int_enc | der_uint_enc => is(V::some(by(rc::der(&a())))).nt(true),
        biguint_from => {
            let e = if a().is_zero() { vec![0u8] } else { a().to_bytes_le() };
            is(V::T(vec![by(e.clone()), by(e)])).nt(true)
        }
        bigint_from => {
            let e = if a().is_zero() { vec![0u8] } else { a().to_bytes_le() };
            is(V::T(vec![V::B(true), by(e.clone()), by(e)])).nt(true)
        }
        pg_to_sql => {
            let t = args[1].as_n() as usize;
            match pg_encode(t, &a(), bits) {
                Ok(Some(e)) => is(V::some(by(e))).nt(true),
                Ok(None) => is(V::None).nt(true),
                Err(()) => pred("Some(_) (float column: bytes not compared), no panic", |g| matches!(g, V::Some(_))),
            }
        }
        pg_to_sql_seq => {
            let t = args[2].as_n() as usize;
            let (x, y) = (a(), big(args[1].limbs()));
            match (pg_encode(t, &x, bits), pg_encode(t, &y, bits)) {
                (Ok(Some(e1)), Ok(Some(e2))) => {
                    let mut o = vec![0xEEu8, 0xDD, 0xCC];
                    o.extend(&e1);
                    let l1 = o.len();
                    o.extend(&e2);
                    is(V::T(vec![V::B(true), V::n(l1), V::B(true), by(o)])).nt(true)
                }
                (Ok(e1), Ok(e2)) => {
                    let (w1, w2) = (e1.is_some(), e2.is_some());
                    pred("the two results succeed exactly when the single encodings do; the 3 bytes already in the buffer are untouched", move |g| matches!(g, V::T(t) if t.len() == 4 && t[0] == V::B(w1) && (!w1 || t[2] == V::B(w2)) && matches!(&t[3], V::Bytes(b) if b.starts_with(&[0xEE, 0xDD, 0xCC])))).nt(true)
                }
                _ => pred("no panic (float column: bytes not compared)", |g| *g != V::Panic),
            }
        }
        pg_array => {
            let t = args[2].as_n() as usize;
            let (x, y) = (a(), big(args[1].limbs()));
            let (aty, et) = (&PG_ARRAY_TYPES[t].0, PG_ARRAY_TYPES[t].1);
            let oid = match aty.kind() { postgres_types::Kind::Array(e) => e.oid(), _ => 0 };
            match (pg_encode(et, &x, bits), pg_encode(et, &y, bits)) {
                (Ok(Some(e1)), Ok(Some(e2))) => {
                    // one-dimensional array: ndim, has-null flag, element oid, length, lower bound, then length-prefixed elements
                    let mut o = vec![0xEEu8];
                    for w in [1i32, 0, oid as i32, 2, 1] {
                        o.extend(w.to_be_bytes());
                    }
                    for e in [&e1, &e2] {
                        o.extend((e.len() as i32).to_be_bytes());
                        o.extend(e.iter());
                    }
                    let lv = V::L(vec![u(&x, bits), u(&y, bits)]);
                    is(V::T(vec![V::B(true), by(o), V::some(lv)])).nt(true)
                }
                (Ok(_), Ok(_)) => pred("the array is refused (an element does not fit the column type); no panic", |g| matches!(g, V::T(t) if t.len() == 3 && t[0] == V::B(false))).nt(true),
                _ => pred("no panic", |g| *g != V::Panic),
            }
        }
        pg_accepts => {
            let t = args[0].as_n() as usize;
            let yes = t < 17;
            is(V::T(vec![V::B(yes), V::B(yes)]))
        }
        seq_alloy | seq_fastrlp03 | seq_fastrlp04 | seq_scale | seq_compact | seq_ssz | seq_borsh | seq_der | seq_rlp | seq_bincode | seq_json | seq_ssz_vec => {
            let (x, y) = (a(), big(args[1].limbs()));
            let enc = |v: &BigUint| -> Vec<u8> {
                match op {
                    seq_alloy | seq_fastrlp03 | seq_fastrlp04 | seq_rlp => rc::rlp(v),
                    seq_scale => rc::scale_bytes(&rc::fixed_le(v, nb)),
                    seq_compact => rc::compact(v),
                    seq_ssz | seq_borsh | seq_ssz_vec => rc::fixed_le(v, nb),
                    seq_der => rc::der(v),
                    seq_bincode => rc::bincode(v, nb),
                    _ => rc::json_quantity(v).into_bytes(),
                }
            };
            let mut e: Vec<u8> = match op {
                seq_rlp | seq_bincode | seq_json | seq_ssz_vec => vec![],
                _ => vec![0xEE],
            };
            if op == seq_json {
                e.extend(b"[");
            }
            e.extend(enc(&x));
            if op == seq_json {
                e.extend(b",");
            }
            e.extend(enc(&y));
            if op == seq_json {
                e.extend(b"]");
            }
            match op {
                seq_rlp => {
                    // list header + two items
                    let payload = e;
                    let mut o = if payload.len() < 56 { vec![0xc0 + payload.len() as u8] } else { let l = rc::be_min(&BigUint::from(payload.len())); let mut o = vec![0xf7 + l.len() as u8]; o.extend(l); o };
                    o.extend(payload);
                    is(by(o))
                }
                seq_bincode | seq_json => is(V::ok(by(e))),
                // a list of zero-length items cannot be counted from its (empty) encoding: no claim at 0 bits
                seq_ssz_vec if bits == 0 => dont_care(),
                seq_ssz_vec => is(V::T(vec![by(e), V::some(V::L(vec![u(&x, bits), u(&y, bits)]))])),
                _ => is(by(e)),
            }
            .nt(true)
        }
        c_borsh_enc | c_scale_enc | c_alloy_enc | c_json_enc | c_bincode_enc => {
            let V::L(items) = &args[0] else { return dont_care() };
            let vals: Vec<BigUint> = items.iter().map(|x| big(x.limbs())).collect();
            let first: Vec<BigUint> = vals.iter().take(1).cloned().collect();
            let two = vals.len() == 2;
            let r = |k: Op, v: &[BigUint]| container_ref(k, v, nb).expect("harness: container reference");
            let so = |b: Vec<u8>| V::some(by(b));
            match op {
                c_borsh_enc => is(V::T(vec![so(r(c_borsh_vec_dec, &vals)), if two { so(r(c_borsh_arr_dec, &vals)) } else { V::None }, so(r(c_borsh_opt_dec, &first))])),
                c_scale_enc => {
                    let e = r(c_scale_vec_dec, &vals);
                    let n = e.len();
                    is(V::T(vec![by(e), if two { so(r(c_scale_arr_dec, &vals)) } else { V::None }, by(r(c_scale_opt_dec, &first)), if two { so(r(c_scale_tuple_dec, &vals)) } else { V::None }, V::n(n)]))
                }
                c_alloy_enc => {
                    let e = r(c_alloy_vec_dec, &vals);
                    let n = e.len();
                    let mut o = vec![0xEEu8];
                    o.extend(e);
                    is(V::T(vec![by(o), V::n(n)]))
                }
                c_json_enc => is(V::T(vec![so(r(c_json_vec_dec, &vals)), so(r(c_json_opt_dec, &first))])),
                _ => is(V::T(vec![so(r(c_bincode_vec_dec, &vals)), so(r(c_bincode_opt_dec, &first))])),
            }
            .nt(true)
        }
        serde_u128_dec => may_accept(bits, Some(BigUint::from(args[0].as_n())), None, true),
        serde_u64_dec => {
            let w = args[0].as_n() as u64;
            let one = |v: u64| -> Vec<V> { if BigUint::from(v) < m { vec![V::None, V::some(u(&BigUint::from(v), bits))] } else { vec![V::None] } };
            let (a, b, c) = (one(w), one(w as u32 as u64), one(w as u8 as u64));
            pred("each of (u64, u32, u8 -> Bits): None, or Some(the value) when it fits", move |g| matches!(g, V::T(t) if t.len() == 3 && a.contains(&t[0]) && b.contains(&t[1]) && c.contains(&t[2]))).nt(true)
        }
        serde_str_dec => {
            let t = match &args[0] { V::S(t) => t.clone(), _ => return dont_care() };
            let ok: Vec<V> = match rc::text_denotes(&t) {
                Ok(Some(v)) if v < m => vec![V::None, V::some(u(&v, bits))],
                Ok(None) => return pred("anything but a panic (the text denotes nothing: no claim)", |g| *g != V::Panic).nt(true),
                _ => vec![V::None],
            };
            pred(&format!("the three string routes agree with the text reader: each in {ok:?}"), move |g| matches!(g, V::T(t) if t.len() == 3 && t.iter().all(|x| ok.contains(x)))).nt(true)
        }
        c_json_vec_dec | c_json_opt_dec => {
            // structure through serde_json's own `Value` (trusted for tokenisation), integers through the reference reader
            let no_panic = || pred("anything but a panic (no claim on this text)", |g| *g != V::Panic).nt(true);
            let val: serde_json::Value = match serde_json::from_slice(s()) {
                Ok(v) => v,
                Err(_) => return is(V::None).nt(true),
            };
            let items: Vec<serde_json::Value> = match (op, val) {
                (c_json_vec_dec, serde_json::Value::Array(a)) => a,
                (c_json_opt_dec, serde_json::Value::Null) => vec![],
                (c_json_opt_dec, v @ serde_json::Value::String(_)) => vec![v],
                _ => return no_panic(),
            };
            let mut out = vec![];
            for it in &items {
                let serde_json::Value::String(t) = it else { return no_panic() };
                if t.chars().any(|c| c == '"' || c == '\\' || (c as u32) < 0x20) {
                    return no_panic();
                }
                match json_denotes(format!("\"{t}\"").as_bytes()) {
                    Ok(Some(v)) => out.push(v),
                    Ok(None) => return no_panic(),
                    Err(()) => return is(V::None).nt(true),
                }
            }
            let m = pow2(bits);
            if out.iter().all(|v| v < &m) {
                any_of(vec![V::None, V::some(V::L(out.iter().map(|v| u(v, bits)).collect()))]).nt(true)
            } else {
                is(V::None).nt(true)
            }
        }
        c_borsh_vec_dec | c_borsh_vec_reader_dec | c_borsh_arr_dec | c_borsh_opt_dec | c_scale_vec_dec | c_scale_arr_dec | c_scale_opt_dec | c_scale_tuple_dec | c_scale_vec_compact_dec | c_alloy_vec_dec | c_ssz_vec_dec
        | c_bincode_vec_dec | c_bincode_opt_dec => {
            let m = pow2(bits);
            let cursor = op == c_alloy_vec_dec;
            let rej = move || if cursor { pred("(None, _)", |g| matches!(g, V::T(t) if t.len() == 2 && t[0] == V::None)) } else { is(V::None) };
            if bits == 0 {
                // lists of zero-sized items: the codecs differ (borsh refuses them, ssz cannot count them): no claim beyond no panic
                return pred("anything but a panic (zero-sized items)", |g| *g != V::Panic).nt(true);
            }
            match container_denotes(op, s(), nb) {
                Err(()) => pred("anything but a panic (trailing bytes after the list: no claim)", |g| *g != V::Panic).nt(true),
                Ok(Some(list)) if list.iter().all(|v| v < &m) => {
                    let lv = V::some(V::L(list.iter().map(|v| u(v, bits)).collect()));
                    if cursor {
                        let n = s().len();
                        pred(&format!("(None, _) or ({lv:?}, {n})"), move |g| matches!(g, V::T(t) if t.len() == 2 && (t[0] == V::None || (t[0] == lv && t[1] == V::n(n)))))
                    } else {
                        any_of(vec![V::None, lv])
                    }
                    .nt(true)
                }
                _ => rej().nt(true),
            }
        }
        seq_alloy_dec | seq_fastrlp04_dec | seq_scale_dec | seq_compact_dec | seq_borsh_dec | seq_bincode_dec | seq_json_dec | seq_rlp_dec => dont_care(),
        // ---------------------------------------------------------------- decoders
        json_dec | json_bits_dec | json_reader_dec | json_value_dec => from3(json_denotes(s()), bits, true),
        bincode_in_place => {
            let a0 = a();
            let den = rc::bincode_denotes(args[1].as_bytes()).map(|x| x.0).filter(|v| v < &m);
            // the JSON leg stops after the first value (no end-of-input check in a bare deserialize_in_place): no claim on
            // acceptance there, only that whatever is left in the destination is canonical
            let jden: Option<Option<BigUint>> = None;
            pred("on success the destination holds the denoted value; on error it holds SOME canonical value (checked by the canonicity funnel)", move |g| {
                let V::T(t) = g else { return false };
                if t.len() != 6 {
                    return false;
                }
                let good = |ok: &V, val: &V, d: &Option<BigUint>| match (ok, d) {
                    (V::B(true), Some(v)) => *val == u(v, bits),
                    (V::B(true), None) => false,
                    (V::B(false), _) => matches!(val, V::U(_)),
                    _ => false,
                };
                let _ = &a0;
                good(&t[0], &t[1], &den) && good(&t[2], &t[3], &den) && match &jden { Some(d) => good(&t[4], &t[5], d), None => true }
            })
            .nt(true)
        }
        bincode_dec | bincode_bits_dec | bincode_reader_dec => may_accept(bits, rc::bincode_denotes(s()).map(|x| x.0), None, true),
        rlp_dec | rlp_bits_dec => may_accept(bits, rc::rlp_denotes(s()).map(|x| x.0), None, true),
        alloy_dec | fastrlp03_dec | fastrlp04_dec => {
            // canonical-form decoders: an accepted input re-encodes to exactly the bytes consumed
            let den = rc::rlp_denotes(s()).filter(|(v, used)| rc::rlp(v) == s()[..*used]);
            let used = den.as_ref().map(|x| x.1);
            may_accept(bits, den.map(|x| x.0), Some(used.unwrap_or(0)), true)
        }
        scale_dec | scale_opaque_dec => {
            let den = rc::scale_bytes_denotes(s());
            let used = den.as_ref().map(|x| x.2);
            may_accept(bits, den.map(|x| x.0), Some(used.unwrap_or(0)), true)
        }
        compact_dec | compact_opaque_dec | compact_hc_dec => {
            let den = rc::compact_denotes(s());
            let used = den.as_ref().map(|x| x.1);
            may_accept(bits, den.map(|x| x.0), Some(used.unwrap_or(0)), true)
        }
        ssz_dec | borsh_dec | borsh_bits_dec => {
            let den = if s().len() == nb { Some(BigUint::from_bytes_le(s())) } else { None };
            may_accept(bits, den, None, true)
        }
        base_le_dec | base_be_dec => {
            let b = args[1].as_n() as u64;
            let den = if b >= 2 && s().iter().all(|x| (*x as u64) < b) {
                let it: Vec<u8> = if op == base_le_dec { s().iter().rev().copied().collect() } else { s().to_vec() };
                Some(it.iter().fold(BigUint::zero(), |acc, d| acc * b + *d as u64))
            } else {
                None
            };
            may_accept(bits, den, None, true)
        }
        borsh_reader_dec | borsh_env_dec => {
            let den = if s().len() >= nb { Some(BigUint::from_bytes_le(&s()[..nb])) } else { None };
            may_accept(bits, den, Some(nb), true)
        }
        der_dec | der_anyref_dec | der_any_dec | der_intref_dec | der_int_dec => may_accept(bits, rc::der_denotes(s()), None, true),
        der_uintref_dec | der_uint_dec => may_accept(bits, rc::der_denotes(s()), None, true),
        pg_from_sql => {
            let t = args[0].as_n() as usize;
            from3(pg_denotes(t, args[1].as_bytes()), bits, true)
        }
        biguint_try | bigint_try => {
            let (neg, v) = if op == biguint_try { (false, BigUint::from_bytes_be(s())) } else { (args[0].as_b(), BigUint::from_bytes_be(args[1].as_bytes())) };
            let neg = neg && !v.is_zero();
            if neg {
                let name = "ValueNegative";
                return pred("(Err(ValueNegative(BITS, _)), same)", move |g| {
                    let V::T(t) = g else { return false };
                    t.len() == 2 && t[0] == t[1] && matches!(&t[0], V::Err(e) if matches!(&**e, V::T(x) if x.len() == 3 && x[0] == V::s(name) && x[1] == V::n(bits)))
                })
                .nt(true);
            }
            let e = if v < m { V::ok(u(&v, bits)) } else { V::err(V::T(vec![V::s("ValueTooLarge"), V::n(bits), u(&(&v % &m), bits)])) };
            is(V::T(vec![e.clone(), e])).nt(v >= m)
        }
        try_from_be_slice | try_from_le_slice => {
            let v = if op == try_from_be_slice { BigUint::from_bytes_be(s()) } else { BigUint::from_bytes_le(s()) };
            is(if s().len() <= nb && v < m { V::some(u(&v, bits)) } else { V::None }).nt(true)
        }
        from_str | bits_from_str => from3(pg_text_denotes(s()), bits, true),
    }
}

group_glue!();

const ENC_OPS: &[Op] = &[
    Op::json_enc, Op::json_bits_enc, Op::bincode_enc, Op::bincode_bits_enc, Op::rlp_enc, Op::rlp_bits_enc, Op::alloy_enc, Op::fastrlp03_enc, Op::fastrlp04_enc,
    Op::scale_enc, Op::ssz_enc, Op::borsh_enc, Op::borsh_bits_enc, Op::der_enc, Op::der_any_enc, Op::der_int_enc, Op::der_uint_enc, Op::biguint_from, Op::bigint_from,
];

/// C16: round trips — decode(reference encoding) must be Some(v) (the encoders were just shown to
/// emit exactly the reference encoding, so this is decode(encode(v)) = v).
fn roundtrips(l: &mut Local, bits: usize, v: &BigUint) {
    let nb = (bits + 7) / 8;
    let val = V::U(to_limbs(v, bits));
    let some = |x: &V| V::some(x.clone());
    let must = |l: &mut Local, op: Op, input: Vec<u8>, cursor: bool| {
        let args = [V::Bytes(input.clone())];
        let got = l.guard(op.name(), op.src(), bits, &args, || dispatch(bits, op, &args));
        let e = if cursor { is(V::T(vec![some(&val), V::n(input.len())])) } else { is(some(&val)) };
        l.record(op.name(), op.src(), bits, &args, got, e.nt(true));
    };
    must(l, Op::json_dec, rc::json_quantity(v).into_bytes(), false);
    let full = if bits == 0 { "\"0x0\"".to_string() } else { format!("\"0x{:0>w$}\"", v.to_str_radix(16), w = nb * 2) };
    must(l, Op::json_bits_dec, full.clone().into_bytes(), false);
    must(l, Op::json_dec, full.clone().into_bytes(), false);
    for op in [Op::json_reader_dec, Op::json_value_dec] {
        must(l, op, rc::json_quantity(v).into_bytes(), false);
        must(l, op, full.clone().into_bytes(), false);
    }
    must(l, Op::bincode_reader_dec, rc::bincode(v, nb), false);
    must(l, Op::bincode_dec, rc::bincode(v, nb), false);
    must(l, Op::bincode_bits_dec, rc::bincode(v, nb), false);
    must(l, Op::rlp_dec, rc::rlp(v), false);
    must(l, Op::rlp_bits_dec, rc::rlp_string(&rc::fixed_be(v, nb)), false);
    must(l, Op::alloy_dec, rc::rlp(v), true);
    must(l, Op::fastrlp03_dec, rc::rlp(v), true);
    must(l, Op::fastrlp04_dec, rc::rlp(v), true);
    must(l, Op::scale_dec, rc::scale_bytes(&rc::fixed_le(v, nb)), true);
    must(l, Op::scale_opaque_dec, rc::scale_bytes(&rc::fixed_le(v, nb)), true);
    if bits < 536 {
        must(l, Op::compact_dec, rc::compact(v), true);
        must(l, Op::compact_opaque_dec, rc::compact(v), true);
        must(l, Op::compact_hc_dec, rc::compact(v), true);
    }
    must(l, Op::ssz_dec, rc::fixed_le(v, nb), false);
    must(l, Op::borsh_dec, rc::fixed_le(v, nb), false);
    must(l, Op::borsh_bits_dec, rc::fixed_le(v, nb), false);
    must(l, Op::borsh_reader_dec, rc::fixed_le(v, nb), true);
    // the same encoding delivered by a stream in pieces: every chunk size (a dense set above 40 bytes), every
    // position of one short first read, an interrupted call at every call index; one trailing byte must stay unread
    {
        let mut input = rc::fixed_le(v, nb);
        input.push(0xEE);
        let ks: Vec<usize> = if nb <= 40 { (1..=nb + 2).collect() } else { vec![1, 2, 3, 7, 8, 9, 15, 16, 17, 31, 32, 33, nb - 1, nb, nb + 1, nb + 2] };
        let mut env = |l: &mut Local, mode: usize, k: usize| {
            let args = [V::Bytes(input.clone()), V::n(mode), V::n(k)];
            let got = l.guard(Op::borsh_env_dec.name(), Op::borsh_env_dec.src(), bits, &args, || dispatch(bits, Op::borsh_env_dec, &args));
            l.record(Op::borsh_env_dec.name(), Op::borsh_env_dec.src(), bits, &args, got, is(V::T(vec![some(&val), V::n(nb)])).nt(true));
            if mode != 1 {
                exec(l, bits, Op::borsh_env_enc, &[val.clone(), V::n(mode), V::n(k)]);
            }
        };
        for &k in &ks {
            env(l, 0, k);
        }
        for p in 1..nb {
            env(l, 1, p);
        }
        for k in 1..=nb / 3 + 2 {
            env(l, 2, k);
        }
    }
    for op in [Op::der_dec, Op::der_anyref_dec, Op::der_any_dec, Op::der_intref_dec, Op::der_int_dec, Op::der_uintref_dec, Op::der_uint_dec] {
        must(l, op, rc::der(v), false);
    }
    // postgres: every column type whose encoding of this value succeeds and is not a float type
    for t in 0..PG_TYPES.len() {
        if matches!(PG_TYPES[t], Type::FLOAT4 | Type::FLOAT8) {
            continue;
        }
        if let Ok(Some(e)) = pg_encode(t, v, bits) {
            let args = [V::n(t), V::Bytes(e)];
            let got = l.guard(Op::pg_from_sql.name(), Op::pg_from_sql.src(), bits, &args, || dispatch(bits, Op::pg_from_sql, &args));
            l.record(Op::pg_from_sql.name(), Op::pg_from_sql.src(), bits, &args, got, is(some(&val)).nt(true));
        }
    }
}

fn c16_values(r: &Runner, bits: usize) -> (Vec<Limbs>, String) {
    // the mode-boundary universe P(B) is part of every candidate of `pick`
    let (mut v, d) = pick(bits, if r.is_thorough() { 100_000 } else { 8_000 }, &salt(r.seed));
    // decimal mode boundaries (NUMERIC digits are base 10000, texts are decimal): 10^k, c * 10000^k and neighbours
    let m = pow2(bits);
    let mut p = BigUint::from(1u32);
    while p < m {
        for c in [1u32, 2, 9, 10, 9999] {
            for dl in [-1i32, 0, 1] {
                let x = &p * c;
                let x = if dl < 0 { if x.is_zero() { continue } else { x - 1u32 } } else { x + dl as u32 };
                if x < m {
                    v.push(to_limbs(&x, bits));
                }
            }
        }
        let q = &p * &p * 10000u32 + &p; // digits with zero runs in between
        if q < m {
            v.push(to_limbs(&q, bits));
        }
        p *= 10u32;
    }
    v.sort_by(|a, b| a.iter().rev().cmp(b.iter().rev()));
    v.dedup();
    (v, format!("{d}+decimal boundaries"))
}

const W_Q: &[usize] = &[0, 1, 7, 8, 9, 16, 60, 63, 64, 65, 127, 128, 129, 160, 250, 256, 257, 440, 441, 448, 512, 535, 1024];

fn c16(r: &Runner) {
    r.set_rule("values: the mode-boundary universe 2^k + d for EVERY k <= BITS (contains 0, 0x7f/0x80, 2^6, 2^14, 2^30, every 2^(8j)-1 / 2^(8j), the 55/56-byte RLP boundary at 2^440, MAX) united with S(B) for B <= 12 resp. the limb-alphabet product and run shapes (small values in wide types); widths incl. 0, non-byte-aligned, the 60/250-bit class, 440/441/448 (RLP long form), 528/535 (compact bound). per value: every encoder's bytes = the independent reference codec; advertised lengths exact, size hints within one prefix word, maxima not below a produced length; decode(encoding) = value for every decoder; postgres round trip for every non-float column type whose encoding succeeds; primitive-types / bytemuck / ark-ff conversions at their fixed widths; where the codec crate encodes u64/u128 itself the bytes are compared with that encoding too. every case is non-trivial");
    for &bits in if r.is_thorough() { WIDTHS } else { W_Q } {
        if bits > 100_000 {
            continue; // the GIANT width has its own small universe below (one value is 64 KiB)
        }
        let (vals, d) = c16_values(r, bits);
        r.universe(&format!("{d}: encoders = reference codecs, lengths, round trips"), bits, vals.len(), |i, l| {
            let a = vu(&vals[i]);
            let v = big(&vals[i]);
            l.states(1);
            for &op in ENC_OPS {
                exec(l, bits, op, &[a.clone()]);
            }
            if bits < 536 {
                exec(l, bits, Op::compact_enc, &[a.clone()]);
                exec(l, bits, Op::compact_hc_enc, &[a.clone()]);
            }
            for t in 0..PG_TYPES.len() {
                exec(l, bits, Op::pg_to_sql, &[a.clone(), V::n(t)]);
            }
            {
                let bw = vu(&vals[(i + 1) % vals.len()]);
                for t in 0..PG_TYPES.len() {
                    exec(l, bits, Op::pg_to_sql_seq, &[a.clone(), bw.clone(), V::n(t)]);
                }
                for t in 0..PG_ARRAY_TYPES.len() {
                    exec(l, bits, Op::pg_array, &[a.clone(), bw.clone(), V::n(t)]);
                }
            }
            for op in [Op::alloy_slice_enc, Op::fastrlp04_slice_enc, Op::scale_outputs_enc, Op::der_ctx] {
                exec(l, bits, op, &[a.clone()]);
            }
            {
                let el = rc::rlp(&v).len();
                for cap in [0usize, 1, 2, 3, el + 1, el + 2, el + 3, 2 * el + 1, 2 * el + 2, 64] {
                    exec(l, bits, Op::alloy_bytesmut_enc, &[a.clone(), V::n(cap)]);
                    exec(l, bits, Op::fastrlp03_bytesmut_enc, &[a.clone(), V::n(cap)]);
                }
                let dl = rc::der(&v).len();
                for n in [0usize, 1, 2, dl.saturating_sub(1), dl, dl + 1, dl + 9] {
                    exec(l, bits, Op::der_slice_enc, &[a.clone(), V::n(n)]);
                }
            }
            roundtrips(l, bits, &v);
            // two values back to back: this value and its successor in the universe
            let w = big(&vals[(i + 1) % vals.len()]);
            let bw = vu(&vals[(i + 1) % vals.len()]);
            if bits > 0 {
                if i == 0 {
                    container_roundtrips(l, bits, &[]);
                }
                container_roundtrips(l, bits, &[v.clone()]);
                container_roundtrips(l, bits, &[v.clone(), w.clone()]);
                container_roundtrips(l, bits, &[w.clone(), v.clone(), w.clone()]);
            }
            for op in [Op::seq_alloy, Op::seq_fastrlp03, Op::seq_fastrlp04, Op::seq_rlp, Op::seq_scale, Op::seq_ssz, Op::seq_borsh, Op::seq_bincode, Op::seq_json, Op::seq_der, Op::seq_ssz_vec] {
                exec(l, bits, op, &[a.clone(), bw.clone()]);
            }
            if bits < 536 {
                exec(l, bits, Op::seq_compact, &[a.clone(), bw.clone()]);
            }
            // sequential decoding of the two reference encodings
            {
                let nbb = (bits + 7) / 8;
                let (va, vb) = (u(&v, bits), u(&w, bits));
                let mut seqdec = |l: &mut Local, op: Op, input: Vec<u8>, cursor: bool| {
                    let args = [V::Bytes(input)];
                    let got = l.guard(op.name(), op.src(), bits, &args, || dispatch(bits, op, &args));
                    let e = if cursor { V::T(vec![V::some(va.clone()), V::some(vb.clone()), V::n(0)]) } else { V::some(V::T(vec![va.clone(), vb.clone()])) };
                    l.record(op.name(), op.src(), bits, &args, got, is(e).nt(true));
                };
                let cat = |x: Vec<u8>, y: Vec<u8>| { let mut o = x; o.extend(y); o };
                seqdec(l, Op::seq_alloy_dec, cat(rc::rlp(&v), rc::rlp(&w)), true);
                seqdec(l, Op::seq_fastrlp04_dec, cat(rc::rlp(&v), rc::rlp(&w)), true);
                seqdec(l, Op::seq_scale_dec, cat(rc::scale_bytes(&rc::fixed_le(&v, nbb)), rc::scale_bytes(&rc::fixed_le(&w, nbb))), true);
                if bits < 536 {
                    seqdec(l, Op::seq_compact_dec, cat(rc::compact(&v), rc::compact(&w)), true);
                }
                seqdec(l, Op::seq_borsh_dec, cat(rc::fixed_le(&v, nbb), rc::fixed_le(&w, nbb)), true);
                seqdec(l, Op::seq_bincode_dec, cat(rc::bincode(&v, nbb), rc::bincode(&w, nbb)), false);
                seqdec(l, Op::seq_json_dec, format!("[{},{}]", rc::json_quantity(&v), rc::json_quantity(&w)).into_bytes(), false);
            }
            // second opinion: the codec crates' own encodings of the equal primitive
            if v.bits() <= 128 {
                let p: u128 = v.iter_u64_digits().enumerate().map(|(i, d)| (d as u128) << (64 * i)).sum();
                let mut o = vec![];
                alloy_rlp::Encodable::encode(&p, &mut o);
                let mut o3 = vec![];
                fastrlp_03::Encodable::encode(&p, &mut o3);
                let mut o4 = vec![];
                fastrlp_04::Encodable::encode(&p, &mut o4);
                let oc = parity_scale_codec::Encode::encode(&parity_scale_codec::Compact(p));
                let orlp = rlp::encode(&p).to_vec();
                let reference = rc::rlp(&v);
                for (name, x, e) in [("alloy-rlp u128", &o, &reference), ("fastrlp-0.3 u128", &o3, &reference), ("fastrlp-0.4 u128", &o4, &reference), ("rlp u128", &orlp, &reference), ("scale Compact<u128>", &oc, &rc::compact(&v))] {
                    let ok = x == e;
                    l.record("crate_primitive_encoding", "codec crate's encoding of the equal u128 vs the reference codec", bits, &[a.clone(), V::s(name)], V::Bytes(x.clone()), pred("equals the reference encoding", move |_| ok).nt(true));
                }
            }
        });
    }
    // one GIANT width (524 352 bits = 65 544 bytes: lengths no longer fit 16 bits): the length-carrying encoders and their
    // round trips on values at and around the 65 535 / 65 536 byte boundary
    {
        let bits = 524_352usize;
        let vals: Vec<BigUint> = vec![BigUint::zero(), BigUint::from(200u32), pow2(8 * 65_534) - 1u32, pow2(8 * 65_535 - 1), pow2(8 * 65_535) - 1u32, pow2(8 * 65_535), pow2(8 * 65_536 - 1), pow2(8 * 65_536), pow2(bits) - 1u32];
        r.universe(&format!("GIANT width {bits}: {} values around the 2^16-byte boundary, length-carrying encoders and round trips", vals.len()), bits, vals.len(), |i, l| {
            let a = u(&vals[i], bits);
            l.states(1);
            for op in [Op::rlp_enc, Op::alloy_enc, Op::fastrlp03_enc, Op::fastrlp04_enc, Op::scale_enc, Op::ssz_enc, Op::borsh_enc, Op::der_enc, Op::der_any_enc, Op::bincode_enc, Op::json_enc] {
                exec(l, bits, op, &[a.clone()]);
            }
            let v = &vals[i];
            let nb = (bits + 7) / 8;
            let some = V::some(a.clone());
            for (op, input, cursor) in [(Op::rlp_dec, rc::rlp(v), false), (Op::alloy_dec, rc::rlp(v), true), (Op::fastrlp04_dec, rc::rlp(v), true), (Op::der_dec, rc::der(v), false), (Op::ssz_dec, rc::fixed_le(v, nb), false), (Op::borsh_dec, rc::fixed_le(v, nb), false), (Op::bincode_dec, rc::bincode(v, nb), false), (Op::scale_dec, rc::scale_bytes(&rc::fixed_le(v, nb)), true)] {
                let args = [V::Bytes(input.clone())];
                let got = l.guard(op.name(), op.src(), bits, &args, || dispatch(bits, op, &args));
                let e = if cursor { is(V::T(vec![some.clone(), V::n(input.len())])) } else { is(some.clone()) };
                l.record(op.name(), op.src(), bits, &args, got, e.nt(true));
            }
        });
    }
    r.universe_seq("postgres accepts()", 256, |l| {
        for t in 0..PG_TYPES.len() {
            l.states(1);
            exec(l, 256, Op::pg_accepts, &[V::n(t)]);
        }
    });
    fixed_width_integrations(r);
}

/// primitive-types, bytemuck, ark-ff: impls exist only for concrete widths
fn fixed_width_integrations(r: &Runner) {
    macro_rules! each {
        ($bits:literal, $name:literal, |$a:ident : $t:ty, $lim:ident| $body:expr) => {{
            const B: usize = $bits;
            const L: usize = ($bits + 63) / 64;
            let (vals, d) = pick(B, 1500, &[]);
            r.universe(&format!("{} at {} bits ({d})", $name, B), B, vals.len(), |i, l| {
                let args = [vu(&vals[i])];
                let $lim = vals[i].clone();
                l.states(1);
                let got = l.guard($name, $name, B, &args, || {
                    let $a: $t = <Uint<B, L> as FromV<B, L>>::from_v(&args[0]);
                    IntoV::into_v($body)
                });
                l.record($name, $name, B, &args, got, is(V::B(true)).nt(true));
            });
        }};
    }
    use primitive_types as pt;
    each!(128, "primitive_types::U128 round trip and limbs", |a: Uint<128, 2>, lim| { let x = pt::U128::from(a); x.0.to_vec() == lim && <Uint<128, 2> as From<_>>::from(x) == a });
    each!(256, "primitive_types::U256 round trip and limbs", |a: Uint<256, 4>, lim| { let x = pt::U256::from(a); x.0.to_vec() == lim && <Uint<256, 4> as From<_>>::from(x) == a });
    each!(512, "primitive_types::U512 round trip and limbs", |a: Uint<512, 8>, lim| { let x = pt::U512::from(a); x.0.to_vec() == lim && <Uint<512, 8> as From<_>>::from(x) == a });
    each!(128, "primitive_types::H128 <-> Bits (big-endian bytes)", |a: Uint<128, 2>, lim| { let b = <Bits<128, 2> as From<_>>::from(a); let h = pt::H128::from(b); h.0.to_vec() == rc::fixed_be(&big(&lim), 16) && <Bits<128, 2> as From<_>>::from(h) == b });
    each!(160, "primitive_types::H160 <-> Bits (big-endian bytes)", |a: Uint<160, 3>, lim| { let b = <Bits<160, 3> as From<_>>::from(a); let h = pt::H160::from(b); h.0.to_vec() == rc::fixed_be(&big(&lim), 20) && <Bits<160, 3> as From<_>>::from(h) == b });
    each!(256, "primitive_types::H256 <-> Bits (big-endian bytes)", |a: Uint<256, 4>, lim| { let b = <Bits<256, 4> as From<_>>::from(a); let h = pt::H256::from(b); h.0.to_vec() == rc::fixed_be(&big(&lim), 32) && <Bits<256, 4> as From<_>>::from(h) == b });
    each!(512, "primitive_types::H512 <-> Bits (big-endian bytes)", |a: Uint<512, 8>, lim| { let b = <Bits<512, 8> as From<_>>::from(a); let h = pt::H512::from(b); h.0.to_vec() == rc::fixed_be(&big(&lim), 64) && <Bits<512, 8> as From<_>>::from(h) == b });
    // bytemuck
    each!(64, "bytemuck bytes_of / pod_read_unaligned", |a: Uint<64, 1>, lim| { let b = bytemuck::bytes_of(&a).to_vec(); b == rc::fixed_le(&big(&lim), 8) && bytemuck::pod_read_unaligned::<Uint<64, 1>>(&b) == a && <Uint<64, 1> as bytemuck::Zeroable>::zeroed() == Uint::ZERO });
    each!(256, "bytemuck bytes_of / pod_read_unaligned", |a: Uint<256, 4>, lim| { let b = bytemuck::bytes_of(&a).to_vec(); b == rc::fixed_le(&big(&lim), 32) && bytemuck::pod_read_unaligned::<Uint<256, 4>>(&b) == a && <Uint<256, 4> as bytemuck::Zeroable>::zeroed() == Uint::ZERO });
    each!(1024, "bytemuck bytes_of / pod_read_unaligned", |a: Uint<1024, 16>, lim| { let b = bytemuck::bytes_of(&a).to_vec(); b == rc::fixed_le(&big(&lim), 128) && bytemuck::pod_read_unaligned::<Uint<1024, 16>>(&b) == a });
    // ark-ff 0.3 big integers
    use ark_ff_03::biginteger as a3;
    each!(64, "ark-ff 0.3 BigInteger64", |a: Uint<64, 1>, lim| { let x = a3::BigInteger64::from(a); x.0.to_vec() == lim && <Uint<64, 1> as From<_>>::from(x) == a });
    each!(128, "ark-ff 0.3 BigInteger128", |a: Uint<128, 2>, lim| { let x = a3::BigInteger128::from(a); x.0.to_vec() == lim && <Uint<128, 2> as From<_>>::from(x) == a });
    each!(256, "ark-ff 0.3 BigInteger256", |a: Uint<256, 4>, lim| { let x = a3::BigInteger256::from(a); x.0.to_vec() == lim && <Uint<256, 4> as From<_>>::from(&x) == a });
    each!(320, "ark-ff 0.3 BigInteger320", |a: Uint<320, 5>, lim| { let x = a3::BigInteger320::from(&a); x.0.to_vec() == lim && <Uint<320, 5> as From<_>>::from(x) == a });
    each!(384, "ark-ff 0.3 BigInteger384", |a: Uint<384, 6>, lim| { let x = a3::BigInteger384::from(a); x.0.to_vec() == lim && <Uint<384, 6> as From<_>>::from(x) == a });
    each!(448, "ark-ff 0.3 BigInteger448", |a: Uint<448, 7>, lim| { let x = a3::BigInteger448::from(a); x.0.to_vec() == lim && <Uint<448, 7> as From<_>>::from(x) == a });
    each!(768, "ark-ff 0.3 BigInteger768", |a: Uint<768, 12>, lim| { let x = a3::BigInteger768::from(a); x.0.to_vec() == lim && <Uint<768, 12> as From<_>>::from(x) == a });
    each!(832, "ark-ff 0.3 BigInteger832", |a: Uint<832, 13>, lim| { let x = a3::BigInteger832::from(a); x.0.to_vec() == lim && <Uint<832, 13> as From<_>>::from(x) == a });
    // ark-ff 0.4 BigInt<N>
    use ark_ff_04::BigInt as B4;
    each!(64, "ark-ff 0.4 BigInt<1>", |a: Uint<64, 1>, lim| { let x = B4::<1>::from(a); x.0.to_vec() == lim && <Uint<64, 1> as From<_>>::from(x) == a });
    each!(255, "ark-ff 0.4 BigInt<4> (255 bits)", |a: Uint<255, 4>, lim| { let x = B4::<4>::from(a); x.0.to_vec() == lim && <Uint<255, 4> as From<_>>::from(x) == a });
    each!(256, "ark-ff 0.4 BigInt<4>", |a: Uint<256, 4>, lim| { let x = B4::<4>::from(&a); x.0.to_vec() == lim && <Uint<256, 4> as From<_>>::from(&x) == a });
    each!(384, "ark-ff 0.4 BigInt<6>", |a: Uint<384, 6>, lim| { let x = B4::<6>::from(a); x.0.to_vec() == lim && <Uint<384, 6> as From<_>>::from(x) == a });
    // field elements: Uint -> Fp succeeds exactly below the modulus, and round-trips
    fp_checks(r);
}

fn fp_checks(r: &Runner) {
    let (mut vals, d) = pick(256, 1500, &[]);
    // neighbourhood of the two bn254 moduli
    // bn254 base and scalar field moduli (public constants of the curve)
    let q3: BigUint = "21888242871839275222246405745257275088696311157297823662689037894645226208583".parse().unwrap();
    let r3: BigUint = "21888242871839275222246405745257275088548364400416034343698204186575808495617".parse().unwrap();
    for md in [&q3, &r3] {
        for dlt in 0..3u32 {
            vals.push(to_limbs(&(md + dlt), 256));
            vals.push(to_limbs(&(md - dlt), 256));
        }
    }
    vals.sort();
    vals.dedup();
    r.universe(&format!("ark-ff Fp256<bn254 Fq/Fr> 0.3 and Fp<..> 0.4 ({d} + modulus neighbourhoods)"), 256, vals.len(), |i, l| {
        let args = [vu(&vals[i])];
        let v = big(&vals[i]);
        l.states(1);
        macro_rules! fp {
            ($name:literal, $f:ty, $md:expr) => {{
                let inf = v < $md;
                let got = l.guard($name, $name, 256, &args, || {
                    let a: Uint<256, 4> = FromV::<256, 4>::from_v(&args[0]);
                    let r1 = <$f>::try_from(a);
                    let r2 = <$f>::try_from(&a);
                    match (r1, r2) {
                        (Ok(x), Ok(y)) => V::some(V::T(vec![<Uint<256, 4> as From<_>>::from(x).into_v(), <Uint<256, 4> as From<_>>::from(&y).into_v()])),
                        (Err(_), Err(_)) => V::None,
                        _ => V::s("value/reference forms disagree"),
                    }
                });
                let e = if inf { V::some(V::T(vec![args[0].clone(), args[0].clone()])) } else { V::None };
                l.record($name, $name, 256, &args, got, is(e).nt(true));
            }};
        }
        // a field element into types with the same limb count but FEWER bits than the modulus (254): the conversion must
        // panic or give a canonical value, in both profiles (a range check that exists only as a debug assertion)
        macro_rules! fp_narrow {
            ($name:literal, $f:ty, $md:expr, $($b:literal),*) => {{
                if v < $md {$(
                    let got = l.guard($name, $name, $b, &args, || {
                        let a: Uint<256, 4> = FromV::<256, 4>::from_v(&args[0]);
                        let x = <$f>::try_from(a).ok().expect("harness: field element");
                        let n: Uint<$b, 4> = <Uint<$b, 4> as From<_>>::from(x);
                        let n2: Uint<$b, 4> = <Uint<$b, 4> as From<_>>::from(&x);
                        V::T(vec![V::U(n.as_limbs().to_vec()), V::U(n2.as_limbs().to_vec())])
                    });
                    let fits = v.bits() as usize <= $b;
                    let want = V::U(args[0].limbs().to_vec());
                    let mk = if $b % 64 == 0 { u64::MAX } else { (1u64 << ($b % 64)) - 1 };
                    let e = pred(if fits { "both forms give the value" } else { "a panic (the element does not fit), never limbs above the mask" }, move |g| match g {
                        V::Panic => !fits,
                        V::T(t) => fits && t.len() == 2 && t[0] == want && t[1] == want && matches!(&t[0], V::U(x) if x[3] <= mk),
                        _ => false,
                    });
                    l.record($name, $name, $b, &args, got, e.nt(true));
                )*}
            }};
        }
        fp_narrow!("ark-ff 0.4 Fp<bn254::Fr> -> Uint<B, 4> with B < 254", ark_bn254_04::Fr, r3, 193, 250, 253, 254, 255);
        fp!("ark-ff 0.3 Fp256<bn254::Fq>: TryFrom<Uint> / From<Fp>", ark_bn254_03::Fq, q3);
        fp!("ark-ff 0.3 Fp256<bn254::Fr>: TryFrom<Uint> / From<Fp>", ark_bn254_03::Fr, r3);
        fp!("ark-ff 0.4 Fp<bn254::Fq>: TryFrom<Uint> / From<Fp>", ark_bn254_04::Fq, q3);
        fp!("ark-ff 0.4 Fp<bn254::Fr>: TryFrom<Uint> / From<Fp>", ark_bn254_04::Fr, r3);
    });
}

// ---------------------------------------------------------------- C17

fn mutations(enc: &[u8]) -> Vec<Vec<u8>> {
    let mut out = vec![];
    for n in 0..enc.len() {
        out.push(enc[..n].to_vec()); // every truncation
    }
    for x in [0u8, 0xff] {
        let mut e = enc.to_vec();
        e.push(x);
        out.push(e);
    }
    let edit = |out: &mut Vec<Vec<u8>>, i: usize| {
        for x in [0u8, 1, 0x7f, 0x80, 0xff, enc[i].wrapping_add(1), enc[i].wrapping_sub(1)] {
            let mut e = enc.to_vec();
            e[i] = x;
            out.push(e);
        }
    };
    for i in 0..enc.len().min(12) {
        edit(&mut out, i);
    }
    if enc.len() > 12 {
        for i in enc.len() - 3..enc.len() {
            edit(&mut out, i);
        }
    }
    // text encodings (JSON, decimal / hex text): at EVERY position a sign, a separator, a blank or a non-digit letter
    if !enc.is_empty() && enc.iter().all(|b| b.is_ascii_graphic()) {
        for i in 0..enc.len() {
            // long texts: the first 24 and last 4 positions and every position within 1 of a multiple of 8 from either end
            let j = enc.len() - 1 - i;
            if enc.len() > 80 && i >= 24 && j >= 4 && ![0, 1, 7].contains(&(i % 8)) && ![0, 1, 7].contains(&(j % 8)) {
                continue;
            }
            for x in *b"+-_ g" {
                let mut e = enc.to_vec();
                e[i] = x;
                out.push(e);
            }
        }
    }
    // a zero inserted near the front (leading zero in the payload), with and without bumping the preceding (length) byte
    for i in 0..enc.len().min(4) {
        let mut e = enc.to_vec();
        e.insert(i, 0);
        out.push(e.clone());
        if i > 0 {
            e[i - 1] = e[i - 1].wrapping_add(1);
            out.push(e);
        }
    }
    out
}

const BYTE_DECODERS: &[Op] = &[
    Op::json_dec, Op::json_reader_dec, Op::json_value_dec, Op::json_bits_dec, Op::bincode_dec, Op::bincode_reader_dec, Op::bincode_bits_dec, Op::rlp_dec, Op::rlp_bits_dec, Op::alloy_dec, Op::fastrlp03_dec, Op::fastrlp04_dec,
    Op::scale_dec, Op::scale_opaque_dec, Op::ssz_dec, Op::borsh_dec, Op::borsh_bits_dec, Op::borsh_reader_dec, Op::der_dec, Op::der_anyref_dec, Op::der_any_dec, Op::der_intref_dec,
    Op::der_int_dec, Op::der_uintref_dec, Op::der_uint_dec, Op::biguint_try, Op::try_from_be_slice, Op::try_from_le_slice, Op::from_str, Op::bits_from_str,
];

fn decode_all(l: &mut Local, bits: usize, input: &[u8]) {
    let args = [V::Bytes(input.to_vec())];
    l.states(1);
    for &op in BYTE_DECODERS {
        exec(l, bits, op, &args);
    }
    if bits < 536 {
        exec(l, bits, Op::compact_dec, &args);
        exec(l, bits, Op::compact_opaque_dec, &args);
    }
    exec(l, bits, Op::bincode_in_place, &[V::U(vec![0u64; (bits + 63) / 64]), args[0].clone()]);
    // the digit-list parsers with every byte as one digit
    for b in [3u64, 10, 255, 256, 1 << 16, 1 << 32, (1 << 32) + 1, 1 << 63, u64::MAX] {
        exec(l, bits, Op::base_le_dec, &[args[0].clone(), V::N(b as u128)]);
        exec(l, bits, Op::base_be_dec, &[args[0].clone(), V::N(b as u128)]);
    }
    // a stream that delivers the bytes in pieces (3 bytes per read)
    exec(l, bits, Op::borsh_env_dec, &[args[0].clone(), V::n(0), V::n(3)]);
    for t in 0..PG_TYPES.len() {
        exec(l, bits, Op::pg_from_sql, &[V::n(t), args[0].clone()]);
    }
    exec(l, bits, Op::bigint_try, &[V::B(true), args[0].clone()]);
    exec(l, bits, Op::bigint_try, &[V::B(false), args[0].clone()]);
}

fn valid_encodings(bits: usize, v: &BigUint) -> Vec<Vec<u8>> {
    let nb = (bits + 7) / 8;
    let fits = v < &pow2(8 * nb);
    let mut encs: Vec<Vec<u8>> = vec![
        rc::rlp(v),
        rc::der(v),
        rc::json_quantity(v).into_bytes(),
        format!("\"{v}\"").into_bytes(),
        format!("{v}").into_bytes(),
        format!("0x{}", v.to_str_radix(16)).into_bytes(),
        rc::pg_numeric(v),
        {
            let mut e = vec![1u8];
            e.extend(rc::json_quantity(v).into_bytes());
            e
        },
        rc::scale_bytes(&if v.is_zero() { vec![] } else { v.to_bytes_le() }),
        rc::bincode(v, (v.bits() as usize + 7) / 8),
    ];
    if v.bits() <= 80 {
        // binary / octal texts (short values only: every mutation of a 1000-digit text would dominate the run)
        encs.push(format!("0b{}", v.to_str_radix(2)).into_bytes());
        encs.push(format!("0B{}", v.to_str_radix(2).chars().enumerate().flat_map(|(i, c)| if i % 4 == 1 { vec![c, '_'] } else { vec![c] }).collect::<String>()).into_bytes());
        encs.push(format!("0o{}", v.to_str_radix(8)).into_bytes());
    }
    for b in [3u32, 10, 255] {
        let mut dg: Vec<u8> = vec![];
        let mut t = v.clone();
        while !t.is_zero() {
            dg.push((&t % b).iter_u32_digits().next().unwrap_or(0) as u8);
            t /= b;
        }
        // little endian, and with one / two surplus significant digits
        encs.push(dg.clone());
        let mut e = dg.clone();
        e.push(1);
        encs.push(e.clone());
        e.push(2);
        encs.push(e);
        dg.reverse();
        encs.push(dg);
    }
    if fits {
        // full-width (zero-padded) hexadecimal text, bare and as a JSON string
        encs.push(format!("0x{:0>w$}", v.to_str_radix(16), w = 2 * nb).into_bytes());
        encs.push(format!("\"0x{:0>w$}\"", v.to_str_radix(16), w = 2 * nb).into_bytes());
        encs.push(rc::fixed_le(v, nb));
        encs.push(rc::fixed_be(v, nb));
        encs.push(rc::fixed_le(v, nb + 1));
        encs.push(rc::scale_bytes(&rc::fixed_le(v, nb)));
        encs.push(rc::bincode(v, nb));
        encs.push(rc::rlp_string(&rc::fixed_be(v, nb)));
    }
    if v < &pow2(bits.max(1) + 8) {
        encs.push(rc::pg_varbit(&(v % pow2(bits)), bits));
    }
    if v.bits() < 536 {
        encs.push(rc::compact(v));
    }
    // long-form RLP header for a short payload, and a payload with a leading zero (non-minimal forms)
    let p = rc::be_min(v);
    if p.len() < 56 {
        let mut e = vec![0xb8, p.len() as u8];
        e.extend(&p);
        encs.push(e);
        let mut e = vec![0x80 + p.len() as u8 + 1, 0];
        e.extend(&p);
        encs.push(e);
    }
    if p.len() == 1 && p[0] < 0x80 {
        encs.push(vec![0x81, p[0]]);
    }
    // DER with a redundant leading zero / long-form length
    {
        let c = rc::der_content(v);
        let mut e = vec![0x02, c.len() as u8 + 1, 0];
        e.extend(&c);
        encs.push(e);
        let mut e = vec![0x02, 0x81, c.len() as u8];
        e.extend(&c);
        encs.push(e);
    }
    encs
}

fn c17(r: &Runner) {
    r.set_rule("every input goes to EVERY decoder (cross-format confusion included): (a) ALL byte strings of length 0..=2 (3 thorough, at widths <= 16); (b) every valid encoding (RLP, DER, JSON quantity / decimal text, NUMERIC, JSONB, SCALE fixed and compact, bincode, fixed LE/BE at BYTES and BYTES+1, VARBIT, non-minimal RLP/DER forms) of every value of the codec value universe and of the out-of-range values 2^B, 2^B+1, 2^B*256, with every single-field mutation: each truncation, one byte appended, each of the first 12 / last 3 bytes replaced by {00,01,7f,80,ff,+1,-1}, a zero inserted near the front with and without bumping the preceding length byte; (c) postgres header fields over boundary values. oracle: a reference reader per format says what the bytes denote; the outcome must be an error or exactly that value, < 2^BITS, canonical; for alloy-rlp, fastrlp, DER an accepted input must equal the reference encoding of its value (non-minimal forms rejected). every case is non-trivial");
    let ws: &[usize] = if r.is_thorough() { WIDTHS } else { &[0, 1, 7, 8, 9, 16, 60, 63, 64, 65, 127, 128, 250, 256, 257, 440, 448, 535, 1024] };
    for &bits in ws {
        if bits > 100_000 {
            continue; // GIANT width: encoders only (C16)
        }
        let maxlen = if r.is_thorough() && bits <= 16 { 3 } else { 2 };
        let total: usize = (0..=maxlen).map(|k| 1usize << (8 * k)).sum();
        r.universe(&format!("ALL byte strings of length 0..={maxlen} -> every decoder"), bits, total, |i, l| {
            let mut k = 0;
            let mut idx = i;
            while idx >= (1usize << (8 * k)) {
                idx -= 1usize << (8 * k);
                k += 1;
            }
            let s: Vec<u8> = (0..k).map(|j| (idx >> (8 * j)) as u8).collect();
            decode_all(l, bits, &s);
        });
        // valid encodings with single-field mutations
        let m = pow2(bits);
        let vals: Vec<BigUint> = {
            let budget = if r.is_thorough() { 1200 } else { 160 };
            let mut v: Vec<BigUint> = if bits <= 8 { small_all(bits).iter().map(|x| big(x)).collect() } else { let mut s = pow2_sparse(bits); if s.len() < budget { s = pick(bits, budget, &[]).0; } s.iter().map(|x| big(x)).collect() };
            v.extend([m.clone(), &m + 1u32, &m * 256u32, (&m << 1) - 1u32]);
            // longer than the limb storage AND with bits between BITS and 64 * LIMBS set (a truncating fast path must still mask)
            let full = pow2(64 * nlimbs(bits));
            v.extend([&m * 257u32, &full + &m, (&full << 8) - 1u32, (&full << 64) - 1u32, &full * 3u32 + (&full - 1u32)]);
            v.extend([BigUint::from(0x7fu32), BigUint::from(0x80u32), BigUint::from(63u32), BigUint::from(64u32), BigUint::from((1u32 << 14) - 1), BigUint::from(1u32 << 14), BigUint::from((1u32 << 30) - 1), BigUint::from(1u32 << 30)]);
            v.sort();
            v.dedup();
            v
        };
        r.universe(&format!("valid encodings of {} values x single-field mutations -> every decoder", vals.len()), bits, vals.len(), |i, l| {
            let mut inputs: Vec<Vec<u8>> = vec![];
            for e in valid_encodings(bits, &vals[i]) {
                inputs.extend(mutations(&e));
                inputs.push(e);
            }
            inputs.sort();
            inputs.dedup();
            for inp in &inputs {
                decode_all(l, bits, inp);
            }
        });
        // containers on untrusted input: reference encodings of [], [x], [x, y] (x, y incl. out-of-range values) in every
        // container format with every single-field mutation, and hostile length prefixes in front of 0..2 items; every
        // input goes to EVERY container decoder
        if bits > 0 {
            let nbb = (bits + 7) / 8;
            let cvals: Vec<BigUint> = {
                let mut v: Vec<BigUint> = vals.iter().step_by((vals.len() / if r.is_thorough() { 60 } else { 20 }).max(1)).cloned().collect();
                v.extend([BigUint::zero(), &m - 1u32, m.clone(), &m + 1u32, pow2(8 * nbb) - 1u32, pow2(8 * nbb)]);
                v.sort();
                v.dedup();
                v
            };
            r.universe(&format!("containers (Vec / [_; 2] / Option / tuple): reference encodings of lists over {} values x single-field mutations + hostile length prefixes -> every container decoder", cvals.len()), bits, cvals.len(), |i, l| {
                let x = &cvals[i];
                let y = &cvals[(i * 7 + 3) % cvals.len()];
                let mut inputs: Vec<Vec<u8>> = vec![];
                for list in [vec![], vec![x.clone()], vec![x.clone(), y.clone()], vec![y.clone(), x.clone(), y.clone()]] {
                    for &k in CONTAINER_DECODERS {
                        if let Some(e) = container_ref(k, &list, nbb) {
                            if list.len() <= 2 {
                                inputs.extend(mutations(&e));
                            }
                            inputs.push(e);
                        }
                    }
                }
                if x.bits() as usize <= 8 * nbb {
                    let item = rc::fixed_le(x, nbb);
                    let per = (1u64 << 32) / nbb as u64;
                    for n in [0u64, 1, 2, 3, 255, 256, 1 << 16, 1 << 24, 1 << 27, 1 << 28, 1 << 29, 1 << 30, 1 << 31, u32::MAX as u64, per - 1, per, per + 1, 2 * per, 2 * per + 1, 1 << 32, (1 << 32) + 1, 1 << 56, u64::MAX] {
                        for k in 0..3usize {
                            let body: Vec<u8> = (0..k).flat_map(|_| item.clone()).collect();
                            if n <= u32::MAX as u64 {
                                let mut e = (n as u32).to_le_bytes().to_vec();
                                e.extend(&body);
                                inputs.push(e);
                                let mut e = rc::compact(&BigUint::from(n));
                                e.extend((0..k).flat_map(|_| rc::scale_bytes(&item)));
                                inputs.push(e);
                            }
                            let mut e = n.to_le_bytes().to_vec();
                            e.extend((0..k).flat_map(|_| rc::bincode(x, nbb)));
                            inputs.push(e);
                        }
                    }
                }
                inputs.sort();
                inputs.dedup();
                for inp in &inputs {
                    container_decode_all(l, bits, inp);
                }
            });
        }
        // serde's value deserializers: every 2^k + d as u128 / u64, and the texts of the text universe through the
        // owned / borrowed string deserializers
        {
            let mut ws: Vec<u128> = vec![0, 1, u128::MAX, u64::MAX as u128, (u64::MAX as u128) + 1, (7u128 << 64) | 5, 0x9e3779b97f4a7c15_u128 << 32];
            for k in 0..128u32 {
                for d in [-1i128, 0, 1] {
                    ws.push((1u128 << k).wrapping_add(d as u128));
                }
            }
            if bits < 128 {
                ws.extend([(1u128 << bits) - 1, 1u128 << bits, (1u128 << bits) + 1, ((1u128 << bits) - 1) | (1u128 << 127), 3u128 << bits.saturating_sub(1)]);
            }
            ws.sort();
            ws.dedup();
            let texts: Vec<String> = {
                let mut t: Vec<String> = vec!["".into(), "0".into(), "0x".into(), "0x0".into(), "00".into(), "0x00".into(), "1".into(), "0x1".into(), "0X1".into(), "0b1".into(), "0o7".into(), "+1".into(), "-1".into(), " 1".into(), "1 ".into(), "0x_1".into(), "1_0".into(), "ff".into(), "0xff".into(), "0xFF".into(), "0xfg".into(), "\u{e9}".into(), "1\u{e9}".into(), "0x1\u{161}".into()];
                for v in [m.clone() - 1u32, m.clone(), &m + 1u32, &m >> 1, pow2(64), pow2(64) - 1u32, pow2(128), pow2(128) - 1u32] {
                    t.push(v.to_str_radix(10));
                    t.push(format!("0x{}", v.to_str_radix(16)));
                    t.push(format!("0x{:0>w$}", v.to_str_radix(16), w = 2 * ((bits + 7) / 8)));
                    t.push(format!("0x0{}", v.to_str_radix(16)));
                    t.push(format!("0b{}", v.to_str_radix(2)));
                    t.push(format!("0o{}", v.to_str_radix(8)));
                }
                t.sort();
                t.dedup();
                t
            };
            r.universe(&format!("serde value deserializers: {} u128 / u64 values, {} texts through Str / String / BorrowedStr", ws.len(), texts.len()), bits, ws.len() + texts.len(), |i, l| {
                l.states(1);
                if i < ws.len() {
                    exec(l, bits, Op::serde_u128_dec, &[V::N(ws[i])]);
                    exec(l, bits, Op::serde_u64_dec, &[V::N(ws[i] as u64 as u128)]);
                    exec(l, bits, Op::serde_u64_dec, &[V::N((ws[i] >> 64) as u64 as u128)]);
                } else {
                    exec(l, bits, Op::serde_str_dec, &[V::S(texts[i - ws.len()].clone())]);
                }
            });
        }
        // postgres header fields
        let hv: [i16; 9] = [0, 1, 2, -1, 0x7fff, -0x8000, 0x4000, 9999, 10000];
        let mut pg: Vec<(usize, Vec<u8>)> = vec![];
        let numeric = PG_TYPES.iter().position(|t| *t == Type::NUMERIC).unwrap();
        for &nd in &hv {
            for &w in &hv {
                for &sg in &[0i16, 0x4000, -0x4000 /* 0xC000 NaN */, 1] {
                    for &ds in &[0i16, 1, -1] {
                        for payload in [vec![], vec![0i16], vec![1], vec![9999], vec![10000], vec![1, 0], vec![0, 1], vec![9999, 9999], vec![-1]] {
                            let mut e = vec![];
                            for x in [nd, w, sg, ds] {
                                e.extend(x.to_be_bytes());
                            }
                            for d in &payload {
                                e.extend(d.to_be_bytes());
                            }
                            pg.push((numeric, e));
                        }
                    }
                }
            }
        }
        for ty in [Type::BIT, Type::VARBIT] {
            let t = PG_TYPES.iter().position(|x| *x == ty).unwrap();
            for len in [0i32, 1, 7, 8, 9, 15, 16, 17, bits as i32 - 1, bits as i32, bits as i32 + 1, bits as i32 + 8, -1, i32::MAX, i32::MIN, 64, 65] {
                for data in [vec![], vec![0u8], vec![0xff], vec![0x80], vec![1], vec![0xff, 0xff], vec![0, 1], vec![0x80, 0], vec![0xff; 3], vec![0xff; 9], vec![0xff; (bits + 7) / 8], vec![0xff; (bits + 7) / 8 + 1]] {
                    let mut e = len.to_be_bytes().to_vec();
                    e.extend(data);
                    pg.push((t, e));
                }
            }
        }
        for ty in [Type::JSONB, Type::JSON, Type::TEXT] {
            let t = PG_TYPES.iter().position(|x| *x == ty).unwrap();
            for txt in ["", "\"", "\"\"", "\"0x\"", "\"0x1\"", "0x1", "1", "\"1", "1\"", "\u{1}", "\u{1}\"", "\u{1}\"\"", "\u{1}\"0x1\"", "\u{2}\"0x1\"", "\"\u{e9}\"", "1\u{e9}", "\u{20ac}", "-1", "\"-1\"", "1.0", "null", "1\u{131}", "\"1\u{161}\"", "0x\u{661}", "1\u{15f}0", "\u{212a}", "1\u{212a}", "0x\u{212a}", "\u{17f}", "\u{ff11}", "0x\u{ff21}", "\u{1d7cf}"] {
                pg.push((t, txt.as_bytes().to_vec()));
            }
        }
        // LONG rejected texts with a multi-byte character at every byte offset around 64, 128, 256 (an error message that
        // quotes a prefix of the input, a chunked scanner): JSON strings and bare texts, into every decoder
        {
            let mut long: Vec<Vec<u8>> = vec![];
            for base in [64usize, 128, 256] {
                for k in base - 6..=base + 4 {
                    for c in ["\u{e9}", "\u{20ac}", "\u{1f600}"] {
                        for (pre, fill) in [("", "z"), ("0x", "f"), ("", "9")] {
                            let body = format!("{pre}{}{c}{c}zz", fill.repeat(k - pre.len()));
                            long.push(format!("\"{body}\"").into_bytes());
                            long.push(body.into_bytes());
                        }
                    }
                }
            }
            r.universe(&format!("long texts with a multi-byte character at every offset around 64 / 128 / 256 bytes ({} inputs) -> every decoder", long.len()), bits, long.len(), |i, l| {
                decode_all(l, bits, &long[i]);
            });
        }
        // IEEE special values as FLOAT4 / FLOAT8 wire bytes (and, like every input, for every other decoder below)
        let mut floats: Vec<Vec<u8>> = vec![];
        for f in [0.0f64, -0.0, 0.5, 1.0, 1.5, -1.0, 255.0, 256.0, 4503599627370497.0, 9007199254740991.0, f64::MAX, f64::MIN_POSITIVE, 5e-324, f64::INFINITY, f64::NEG_INFINITY, f64::NAN, (bits.min(1023) as f64).exp2(), (bits.min(1023) as f64).exp2() - 1.0, ((bits.min(1023)) as f64).exp2() * 0.75] {
            floats.push(f.to_be_bytes().to_vec());
            floats.push((f as f32).to_be_bytes().to_vec());
        }
        floats.sort();
        floats.dedup();
        r.universe(&format!("IEEE special values as wire bytes ({} inputs) -> every decoder", floats.len()), bits, floats.len(), |i, l| {
            decode_all(l, bits, &floats[i]);
        });
        r.universe(&format!("postgres header fields / texts ({} inputs)", pg.len()), bits, pg.len(), |i, l| {
            l.states(1);
            exec(l, bits, Op::pg_from_sql, &[V::n(pg[i].0), V::Bytes(pg[i].1.clone())]);
        });
    }
}

fn main() {
    let (prop, tier, seed, replay_path) = args_env();
    if let Some(p) = replay_path {
        std::process::exit(replay(&p));
    }
    let r = Runner::new("mc_codec", &prop, &tier, seed);
    r.assume("reference codecs are written from the format definitions on BigUint (harness/src/refcodec.rs); JSON tokenisation and the codec crates' framing (bincode, borsh, ssz, der readers) are trusted, the integer <-> bytes mapping is not");
    r.assume("for decoders that do not promise canonical form a non-minimal input may be accepted or rejected; if accepted the value must be the denoted one");
    r.assume("SCALE fixed-width form = compact length prefix + little-endian bytes (the library's documented choice); size hints may exceed the length by at most 4");
    r.assume("empty digit strings (\"\", \"0x\") denote nothing: no claim");
    match prop.as_str() {
        "C16" => c16(&r),
        "C17" => c17(&r),
        _ => {
            eprintln!("mc_codec: unknown property '{prop}' (C16 C17)");
            std::process::exit(2);
        }
    }
    std::process::exit(r.finish());
}
