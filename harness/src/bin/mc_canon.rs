//! Group `canon`: C04 parts 1-3 (canonical values; ==, Hash, ordering; rejecting constructors and
//! generators). Part 4 (ill-formed types) is a program-space check done by probe/probe_engine.py.
//!
//! Part 1 is an explicit-state search (stateright): State = raw limbs of a live Uint, Action =
//! (operation, operand), and `next_state` CALLS THE REAL OPERATION. Invariants on every state:
//! canonical; equal to the reference transition (Z/2^BITS in BigUint) where one is defined.
#![allow(clippy::all)]

use num_bigint::BigUint;
use num_integer::Integer;
use num_traits::{One, Zero};
use ruint::{Bits, Uint};
use stateright::{Checker, Model, Property};
use std::collections::hash_map::DefaultHasher;
use std::hash::{Hash, Hasher};
use std::sync::atomic::{AtomicU64, Ordering as AO};
use std::sync::Mutex;
use vharness::*;

fn h<T: Hash>(x: &T) -> u64 {
    let mut s = DefaultHasher::new();
    x.hash(&mut s);
    s.finish()
}

// ---------------------------------------------------------------- enumerated RNG tapes

/// An RNG that replays a byte tape (cyclically): the harness owns every random choice.
struct Tape {
    t: Vec<u8>,
    i: usize,
}
impl Tape {
    fn byte(&mut self) -> u8 {
        if self.t.is_empty() {
            return 0;
        }
        let b = self.t[self.i % self.t.len()];
        self.i += 1;
        b
    }
    fn fill(&mut self, d: &mut [u8]) {
        for x in d {
            *x = self.byte();
        }
    }
}
impl rand_08::RngCore for Tape {
    fn next_u32(&mut self) -> u32 {
        let mut b = [0u8; 4];
        self.fill(&mut b);
        u32::from_le_bytes(b)
    }
    fn next_u64(&mut self) -> u64 {
        let mut b = [0u8; 8];
        self.fill(&mut b);
        u64::from_le_bytes(b)
    }
    fn fill_bytes(&mut self, dest: &mut [u8]) {
        self.fill(dest)
    }
    fn try_fill_bytes(&mut self, dest: &mut [u8]) -> Result<(), rand_08::Error> {
        self.fill(dest);
        Ok(())
    }
}
impl rand_09::RngCore for Tape {
    fn next_u32(&mut self) -> u32 {
        let mut b = [0u8; 4];
        self.fill(&mut b);
        u32::from_le_bytes(b)
    }
    fn next_u64(&mut self) -> u64 {
        let mut b = [0u8; 8];
        self.fill(&mut b);
        u64::from_le_bytes(b)
    }
    fn fill_bytes(&mut self, dest: &mut [u8]) {
        self.fill(dest)
    }
}

fn proptest_value<const B: usize, const L: usize>(tape: &[u8]) -> Option<Uint<B, L>> {
    use proptest::strategy::{Strategy, ValueTree};
    use proptest::test_runner::{Config, RngAlgorithm, TestRng, TestRunner};
    let rng = TestRng::from_seed(RngAlgorithm::PassThrough, tape);
    let mut runner = TestRunner::new_with_rng(Config::default(), rng);
    let tree = proptest::arbitrary::any::<Uint<B, L>>().new_tree(&mut runner).ok()?;
    Some(tree.current())
}
fn proptest_bits<const B: usize, const L: usize>(tape: &[u8]) -> Option<Bits<B, L>> {
    use proptest::strategy::{Strategy, ValueTree};
    use proptest::test_runner::{Config, RngAlgorithm, TestRng, TestRunner};
    let rng = TestRng::from_seed(RngAlgorithm::PassThrough, tape);
    let mut runner = TestRunner::new_with_rng(Config::default(), rng);
    let tree = proptest::arbitrary::any::<Bits<B, L>>().new_tree(&mut runner).ok()?;
    Some(tree.current())
}

// ---------------------------------------------------------------- closure operations

const CL_NAMES: &[&str] = &[
    "wrapping_add", "wrapping_sub", "wrapping_mul", "wrapping_neg", "not", "bitand", "bitor", "bitxor", "wrapping_shl", "wrapping_shr", "rotate_left",
    "rotate_right", "arithmetic_shr", "reverse_bits", "wrapping_div", "wrapping_rem", "div_ceil", "checked_add", "checked_sub", "checked_mul", "checked_neg",
    "checked_div", "checked_rem", "saturating_add", "saturating_sub", "saturating_mul", "abs_diff", "wrapping_pow", "checked_pow", "saturating_pow", "root",
    "gcd", "lcm", "inv_ring", "add_mod(s,s,x)", "mul_mod(s,s,x)", "pow_mod(s,n,x)", "reduce_mod", "inv_mod", "checked_next_power_of_two",
    "checked_next_multiple_of", "set_bit(n,true)", "set_bit(n,false)", "from_be_slice(to_be_bytes)", "from_le_slice(as_le_slice)", "wrapping_from(u64)",
    "saturating_from(u64)", "wrapping_from_limbs_slice(x++[n])", "saturating_from_limbs_slice(x++[n])", "gcd_extended.x", "gcd_extended.y", "div_rem.q",
    "div_rem.r", "overflowing_shl.0", "overflowing_shr.0", "checked_shl", "saturating_shl", "from_str_radix(hex)", "to_string.parse", "sum[s,x]",
    "product[s,x]", "MAX", "ONE", "conditional_select", "conditional_negate", "Bits << n", "!Bits", "overflowing_mul.0", "overflowing_neg.0", "pow",
    "next_multiple_of", "next_power_of_two", "from_base_le(to_base_le,b=n+2)", "from_base_be(to_base_be,b=2^63+n)", "wrapping_from(i64 -x)", "saturating_from(f64)",
    "wrapping_from(u128)", "wrapping_from(Uint<256>)", "saturating_from(Uint<70>)",
    // compound assignment operators: the forms that modify a value in place
    "+=", "-=", "*=", "/=", "%=", "&=", "|=", "^=", "<<= usize", ">>= usize", "Bits <<= usize", "Bits >>= usize", "+= &x", "<<= Uint", ">>= Uint", "<<= &u8", ">>= &i32",
];

fn closure_op<const B: usize, const L: usize>(code: usize, s: Uint<B, L>, x: Uint<B, L>, n: usize) -> Option<Uint<B, L>> {
    use subtle::{Choice, ConditionallyNegatable, ConditionallySelectable};
    let lo = x.as_limbs().first().copied().unwrap_or(0);
    Some(match code {
        0 => s.wrapping_add(x),
        1 => s.wrapping_sub(x),
        2 => s.wrapping_mul(x),
        3 => s.wrapping_neg(),
        4 => !s,
        5 => s & x,
        6 => s | x,
        7 => s ^ x,
        8 => s.wrapping_shl(n),
        9 => s.wrapping_shr(n),
        10 => s.rotate_left(n),
        11 => s.rotate_right(n),
        12 => s.arithmetic_shr(n),
        13 => s.reverse_bits(),
        14 => s.wrapping_div(x),
        15 => s.wrapping_rem(x),
        16 => s.div_ceil(x),
        17 => s.checked_add(x)?,
        18 => s.checked_sub(x)?,
        19 => s.checked_mul(x)?,
        20 => s.checked_neg()?,
        21 => s.checked_div(x)?,
        22 => s.checked_rem(x)?,
        23 => s.saturating_add(x),
        24 => s.saturating_sub(x),
        25 => s.saturating_mul(x),
        26 => s.abs_diff(x),
        27 => s.wrapping_pow(x),
        28 => s.checked_pow(x)?,
        29 => s.saturating_pow(x),
        30 => s.root(n),
        31 => s.gcd(x),
        32 => s.lcm(x)?,
        33 => s.inv_ring()?,
        34 => s.add_mod(s, x),
        35 => s.mul_mod(s, x),
        36 => s.pow_mod(Uint::<B, L>::wrapping_from(n as u64), x),
        37 => s.reduce_mod(x),
        38 => s.inv_mod(x)?,
        39 => s.checked_next_power_of_two()?,
        40 => s.checked_next_multiple_of(x)?,
        41 => { let mut t = s; t.set_bit(n, true); t }
        42 => { let mut t = s; t.set_bit(n, false); t }
        43 => Uint::from_be_slice(&s.to_be_bytes_vec()),
        44 => Uint::from_le_slice(s.as_le_slice()),
        45 => Uint::wrapping_from(lo),
        46 => Uint::saturating_from(lo),
        47 => { let mut v = x.as_limbs().to_vec(); v.push(n as u64); Uint::wrapping_from_limbs_slice(&v) }
        48 => { let mut v = x.as_limbs().to_vec(); v.push(n as u64); Uint::saturating_from_limbs_slice(&v) }
        49 => s.gcd_extended(x).1,
        50 => s.gcd_extended(x).2,
        51 => s.div_rem(x).0,
        52 => s.div_rem(x).1,
        53 => s.overflowing_shl(n).0,
        54 => s.overflowing_shr(n).0,
        55 => s.checked_shl(n)?,
        56 => s.saturating_shl(n),
        57 => Uint::from_str_radix(&format!("{s:x}"), 16).ok()?,
        58 => s.to_string().parse().ok()?,
        59 => [s, x].iter().sum(),
        60 => [s, x].iter().product(),
        61 => Uint::MAX,
        62 => Uint::ONE,
        63 => Uint::conditional_select(&s, &x, Choice::from((n & 1) as u8)),
        64 => { let mut t = s; t.conditional_negate(Choice::from((n & 1) as u8)); t }
        65 => (Bits::from(s) << n).into_inner(),
        66 => (!Bits::from(s)).into_inner(),
        67 => s.overflowing_mul(x).0,
        68 => s.overflowing_neg().0,
        69 => s.pow(x),
        70 => s.next_multiple_of(x),
        71 => s.next_power_of_two(),
        72 => Uint::from_base_le(n as u64 + 2, s.to_base_le(n as u64 + 2)).ok()?,
        73 => Uint::from_base_be((1u64 << 63) + n as u64, s.to_base_be((1u64 << 63) + n as u64)).ok()?,
        74 => Uint::wrapping_from(-((lo >> 1) as i64)),
        75 => Uint::saturating_from(lo as f64 * 1.5),
        76 => Uint::wrapping_from(((lo as u128) << 64) | n as u128),
        77 => Uint::wrapping_from(Uint::<256, 4>::from_limbs([lo, !lo, n as u64, lo])),
        78 => Uint::saturating_from(Uint::<70, 2>::from_limbs([lo, (n as u64) & 63])),
        79 => { let mut t = s; t += x; t }
        80 => { let mut t = s; t -= x; t }
        81 => { let mut t = s; t *= x; t }
        82 => { let mut t = s; t /= x; t }
        83 => { let mut t = s; t %= x; t }
        84 => { let mut t = s; t &= x; t }
        85 => { let mut t = s; t |= x; t }
        86 => { let mut t = s; t ^= x; t }
        87 => { let mut t = s; t <<= n; t }
        88 => { let mut t = s; t >>= n; t }
        89 => { let mut t = Bits::from(s); t <<= n; t.into_inner() }
        90 => { let mut t = Bits::from(s); t >>= n; t.into_inner() }
        91 => { let mut t = s; t += &x; t }
        92 => { let mut t = s; t <<= x; t }
        93 => { let mut t = s; t >>= x; t }
        94 => { let mut t = s; t <<= &((n & 0xff) as u8); t }
        95 => { let mut t = s; t >>= &((n & 0x7fff_ffff) as i32); t }
        _ => panic!("harness: bad closure code"),
    })
}

define_ops! {
    // ---- part 2: comparison semantics
    cmp_all = |a: U, b: U| V::T(vec![(a == b).into_v(), (a != b).into_v(), (a < b).into_v(), (a <= b).into_v(), (a > b).into_v(), (a >= b).into_v(), a.cmp(&b).into_v(), a.partial_cmp(&b).map(|o| o as i8).into_v(), a.min(b).into_v(), a.max(b).into_v(), (h(&a) == h(&b)).into_v(), a.is_zero().into_v()]);
    // the same comparisons with both operands being the SAME object
    // a constructor driven by a float: None, or a canonical value (its numeric accuracy is not claimed by any property)
    approx_pow2 = |f: F64| Uint::<B, L>::approx_pow2(f);
    approx_pow2_of_log2 = |a: U| Uint::<B, L>::approx_pow2(a.approx_log2());
    // provided methods of Ord / Clone / PartialOrd (an override that diverges from the default would show here)
    ord_extras = |a: U, b: U, c: U| { let (lo, hi) = if b <= c { (b, c) } else { (c, b) }; let mut x = c; x.clone_from(&a); V::T(vec![a.clamp(lo, hi).into_v(), x.into_v(), a.clone().into_v(), Ord::max(a, b).into_v(), Ord::min(a, b).into_v(), core::cmp::max(&a, &b).into_v(), PartialOrd::lt(&a, &b).into_v(), PartialOrd::le(&a, &b).into_v(), PartialOrd::gt(&a, &b).into_v(), PartialOrd::ge(&a, &b).into_v(), PartialEq::ne(&a, &b).into_v(), [a, b].cmp(&[b, a]).into_v(), ([a, b] == [a, c]).into_v(), [a, b].iter().max().copied().into_v(), [a, b, c].iter().min().copied().into_v()]) };
    cmp_alias = |a: U| { let (x, y) = (&a, &a); V::T(vec![(x == y).into_v(), (x != y).into_v(), (x < y).into_v(), (x <= y).into_v(), (x > y).into_v(), (x >= y).into_v(), x.cmp(y).into_v(), x.partial_cmp(y).map(|o| o as i8).into_v(), (*x.min(y)).into_v(), (*x.max(y)).into_v(), (h(x) == h(y)).into_v(), x.is_zero().into_v()]) };
    routes = |a: U, b: U, e: U| { let r = a.wrapping_add(b); let r2 = b.wrapping_add(a); (r == e, r2 == e, h(&r) == h(&e), h(&r2) == h(&e), r.cmp(&e) as i8, e == Uint::from_limbs(r.into_limbs()) && r.into_limbs() == *r.as_limbs()) };
    // ---- part 3: rejecting constructors
    from_limbs = |s: LS| { let mut a = [0u64; L]; a.copy_from_slice(&s); Uint::<B, L>::from_limbs(a) };
    bits_from_limbs = |s: LS| { let mut a = [0u64; L]; a.copy_from_slice(&s); Bits::<B, L>::from_limbs(a) };
    from_limbs_slice = |s: LS| Uint::<B, L>::from_limbs_slice(&s);
    checked_from_limbs_slice = |s: LS| Uint::<B, L>::checked_from_limbs_slice(&s);
    wrapping_from_limbs_slice = |s: LS| Uint::<B, L>::wrapping_from_limbs_slice(&s);
    overflowing_from_limbs_slice = |s: LS| Uint::<B, L>::overflowing_from_limbs_slice(&s);
    saturating_from_limbs_slice = |s: LS| Uint::<B, L>::saturating_from_limbs_slice(&s);
    from_base_le = |b: W, d: LS| Uint::<B, L>::from_base_le(b, d).ok();
    from_base_be = |b: W, d: LS| Uint::<B, L>::from_base_be(b, d).ok();
    from_str_radix = |s: ST, r: W| Uint::<B, L>::from_str_radix(&s, r).ok();
    try_from_be_slice = |s: BY| Uint::<B, L>::try_from_be_slice(&s);
    try_from_le_slice = |s: BY| Uint::<B, L>::try_from_le_slice(&s);
    type_consts = | | (Uint::<B, L>::BITS, Uint::<B, L>::LIMBS, Uint::<B, L>::MASK, Uint::<B, L>::BYTES, Bits::<B, L>::BITS, Bits::<B, L>::LIMBS, Bits::<B, L>::BYTES);
    helper_fns = |b: N| (ruint::nlimbs(b), ruint::mask(b), ruint::nbytes(b));
    consts = | | (Uint::<B, L>::ZERO, Uint::<B, L>::ONE, Uint::<B, L>::MIN, Uint::<B, L>::MAX, Uint::<B, L>::default(), Bits::<B, L>::ZERO.into_inner());
    // ---- part 3: generators driven by enumerated tapes
    rand08_standard = |t: BY| { use rand_08::distributions::Distribution; let x: Uint<B, L> = rand_08::distributions::Standard.sample(&mut Tape { t, i: 0 }); x };
    rand08_gen = |t: BY| { use rand_08::Rng; let x: Uint<B, L> = Tape { t, i: 0 }.gen(); x };
    rand09_random_with = |t: BY| Uint::<B, L>::random_with(&mut Tape { t, i: 0 });
    rand09_randomize_with = |a: U, t: BY| { a.randomize_with(&mut Tape { t, i: 0 }); a };
    rand09_standard_uniform = |t: BY| { use rand_09::distr::Distribution; let x: Uint<B, L> = rand_09::distr::StandardUniform.sample(&mut Tape { t, i: 0 }); x };
    arbitrary = |t: BY| { use arbitrary::Arbitrary; Uint::<B, L>::arbitrary(&mut arbitrary::Unstructured::new(&t)).ok() };
    arbitrary_take_rest = |t: BY| { use arbitrary::Arbitrary; Uint::<B, L>::arbitrary_take_rest(arbitrary::Unstructured::new(&t)).ok() };
    proptest_any = |t: BY| proptest_value::<B, L>(&t);
    proptest_any_bits = |t: BY| proptest_bits::<B, L>(&t);
    quickcheck = |size: N, k: N| { use quickcheck::Arbitrary; let mut g = quickcheck::Gen::new(size); let mut v = vec![]; for _ in 0..k { v.push(Uint::<B, L>::arbitrary(&mut g).into_v()); } V::L(v) };
    // ---- part 1: one closure transition
    closure = |s: U, x: U, n: N, code: N| closure_op::<B, L>(code, s, x, n);
}

dispatch_widths!(dispatch, call, Op;
    0, 1, 2, 3, 4, 5, 6, 7, 8, 9, 10, 63, 64, 65, 67, 127, 128, 129, 192, 193, 250, 255, 256, 257, 1100, 1216, 2100, 4160);

fn u(v: &BigUint, bits: usize) -> V {
    V::U(to_limbs(v, bits))
}
fn vu(l: &Limbs) -> V {
    V::U(l.clone())
}

/// reference for a closure transition
#[derive(Debug)]
enum Ref {
    Val(BigUint),
    NoTransition, // None or documented panic
    Unknown,      // no reference here: only canonicity is checked
}

fn closure_ref(bits: usize, code: usize, s: &BigUint, x: &BigUint, n: usize) -> Ref {
    use Ref::*;
    let m = pow2(bits);
    let mx = &m - 1u32;
    let wrap = |v: BigUint| Val(v % &m);
    let opt = |v: BigUint| if v < m { Val(v) } else { NoTransition };
    let sat = |v: BigUint| if v < m { Val(v) } else { Val(&m - 1u32) };
    let lo = x.iter_u64_digits().next().unwrap_or(0);
    let shl = |v: &BigUint, k: usize| if k > bits + 200 { BigUint::zero() } else { v << k };
    if bits == 0 {
        // the only value is zero
        return match code {
            14 | 15 | 16 | 51 | 52 | 70 | 82 | 83 => NoTransition, // division by zero panics
            30 if n == 0 => NoTransition,
            17..=22 | 28 | 32 | 33 | 38 | 39 | 40 | 55 | 71 => Unknown,
            _ => Val(BigUint::zero()),
        };
    }
    match code {
        0 | 59 | 79 | 91 => wrap(s + x),
        1 | 80 => wrap(&m + s - x),
        2 | 60 | 67 | 81 => wrap(s * x),
        3 | 68 => wrap(&m - s),
        4 | 66 => Val(&mx - s),
        5 | 84 => Val(s & x),
        6 | 85 => Val(s | x),
        7 | 86 => Val(s ^ x),
        8 | 53 | 65 | 87 | 89 => wrap(shl(s, n)),
        9 | 54 | 88 | 90 => Val(if n > bits + 200 { BigUint::zero() } else { s >> n }),
        94 => wrap(shl(s, n & 0xff)),
        95 => Val(if (n & 0x7fff_ffff) > bits + 200 { BigUint::zero() } else { s >> (n & 0x7fff_ffff) }),
        92 | 93 => {
            // a Uint-typed amount: everything at or beyond the width shifts all bits out
            if x >= &BigUint::from(bits as u64) {
                Val(BigUint::zero())
            } else {
                let k = lo as usize;
                if code == 92 { wrap(s << k) } else { Val(s >> k) }
            }
        }
        10 | 11 => {
            let k = if code == 10 { n % bits } else { (bits - n % bits) % bits };
            wrap((s << k) | (s >> (bits - k)))
        }
        12 => {
            let sign = s.bit(bits as u64 - 1);
            let mut e = if n > bits + 200 { BigUint::zero() } else { s >> n };
            if sign {
                let k = n.min(bits);
                e |= (pow2(k) - 1u32) << (bits - k);
            }
            Val(e)
        }
        13 => {
            let mut r = BigUint::zero();
            for i in 0..bits {
                if s.bit(i as u64) {
                    r.set_bit((bits - 1 - i) as u64, true);
                }
            }
            Val(r)
        }
        14 | 21 | 51 | 82 => if x.is_zero() { NoTransition } else { Val(s / x) },
        15 | 22 | 52 | 83 => if x.is_zero() { NoTransition } else { Val(s % x) },
        16 => if x.is_zero() { NoTransition } else { Val((s + x - 1u32) / x) },
        17 => opt(s + x),
        18 => if s >= x { Val(s - x) } else { NoTransition },
        19 => opt(s * x),
        20 => if s.is_zero() { Val(BigUint::zero()) } else { NoTransition },
        23 => sat(s + x),
        24 => Val(if s >= x { s - x } else { BigUint::zero() }),
        25 => sat(s * x),
        26 => Val(if s >= x { s - x } else { x - s }),
        27 | 69 => Val(s.modpow(x, &m)),
        31 => Val(s.gcd(x)),
        32 => {
            let g = s.gcd(x);
            if g.is_zero() { Val(BigUint::zero()) } else { opt(s * x / g) }
        }
        33 => if s.bit(0) { Val(s.modinv(&m).unwrap()) } else { NoTransition },
        34 => Val(if x.is_zero() { BigUint::zero() } else { (s + s) % x }),
        35 => Val(if x.is_zero() { BigUint::zero() } else { (s * s) % x }),
        36 => Val(if x.is_zero() { BigUint::zero() } else { s.modpow(&(BigUint::from(n as u64) % &m), x) }),
        37 => Val(if x.is_zero() { BigUint::zero() } else { s % x }),
        38 => if x >= &BigUint::from(2u32) && s.gcd(x).is_one() { Val(s.modinv(x).unwrap()) } else { NoTransition },
        39 | 71 => {
            if s.count_ones() == 1 { Val(s.clone()) } else { opt(pow2(s.bits() as usize)) }
        }
        40 | 70 => if x.is_zero() { NoTransition } else { opt((s + x - 1u32) / x * x) },
        41 | 42 => {
            let mut e = s.clone();
            if n < bits {
                e.set_bit(n as u64, code == 41);
            }
            Val(e)
        }
        43 | 44 | 57 | 58 | 72 | 73 => Val(s.clone()),
        45 => wrap(BigUint::from(lo)),
        46 => sat(BigUint::from(lo)),
        47 | 48 => {
            let v = x + (BigUint::from(n as u64) << (64 * nlimbs(bits)));
            if code == 47 { wrap(v) } else { sat(v) }
        }
        55 => opt(shl(s, n)),
        56 => sat(shl(s, n)),
        61 => Val(mx),
        62 => Val(BigUint::one() % &m),
        63 => Val(if n & 1 == 1 { x.clone() } else { s.clone() }),
        64 => if n & 1 == 1 { wrap(&m - s) } else { Val(s.clone()) },
        76 => wrap((BigUint::from(lo) << 64) | BigUint::from(n as u64)),
        77 => wrap(big(&[lo, !lo, n as u64, lo])),
        78 => sat(big(&[lo, (n as u64) & 63])),
        30 if n == 0 => NoTransition,
        _ => Unknown, // pow checked/saturating, root, gcd_extended cofactors, signed / float sources: canonicity only
    }
}

// ---------------------------------------------------------------- stateright model

struct Closure {
    bits: usize,
    operands: Vec<Limbs>,
    amounts: Vec<usize>,
    init: Vec<Limbs>,
}
#[derive(Clone, Debug, Hash, PartialEq, Eq)]
struct St {
    limbs: Limbs,
    /// set when the transition that produced this state broke an invariant
    bad: Option<u8>,
}
#[derive(Clone, Debug, Hash, PartialEq, Eq)]
struct Act {
    code: u16,
    x: u32,
    n: u32,
}

static EDGES: AtomicU64 = AtomicU64::new(0);
static EDGES_REF: AtomicU64 = AtomicU64::new(0);
static BAD: Mutex<Vec<(usize, Vec<V>, V, String)>> = Mutex::new(vec![]);

const BINARY_CODES: &[usize] = &[0, 1, 2, 5, 6, 7, 14, 15, 16, 17, 18, 19, 21, 22, 23, 24, 25, 26, 27, 28, 29, 31, 32, 34, 35, 37, 38, 40, 45, 46, 49, 50, 51, 52, 59, 60, 67, 69, 70, 74, 75, 79, 80, 81, 82, 83, 84, 85, 86, 91, 92, 93];
const UNARY_CODES: &[usize] = &[3, 4, 13, 20, 33, 39, 43, 44, 57, 58, 61, 62, 66, 68, 71];
const AMOUNT_CODES: &[usize] = &[8, 9, 10, 11, 12, 30, 41, 42, 53, 54, 55, 56, 65, 64, 72, 73, 87, 88, 89, 90, 94, 95];
const BOTH_CODES: &[usize] = &[36, 47, 48, 63, 76, 77, 78];

impl Model for Closure {
    type State = St;
    type Action = Act;
    fn init_states(&self) -> Vec<St> {
        self.init.iter().map(|l| St { limbs: l.clone(), bad: None }).collect()
    }
    fn actions(&self, st: &St, out: &mut Vec<Act>) {
        if st.bad.is_some() {
            return;
        }
        for &c in UNARY_CODES {
            out.push(Act { code: c as u16, x: 0, n: 0 });
        }
        for &c in BINARY_CODES {
            for x in 0..self.operands.len() {
                out.push(Act { code: c as u16, x: x as u32, n: 0 });
            }
        }
        for &c in AMOUNT_CODES {
            for n in 0..self.amounts.len() {
                out.push(Act { code: c as u16, x: 0, n: n as u32 });
            }
        }
        for &c in BOTH_CODES {
            for x in 0..self.operands.len().min(6) {
                for n in 0..self.amounts.len().min(4) {
                    out.push(Act { code: c as u16, x: x as u32, n: n as u32 });
                }
            }
        }
    }
    fn next_state(&self, st: &St, a: Act) -> Option<St> {
        let bits = self.bits;
        let x = &self.operands[a.x as usize];
        let n = self.amounts[a.n as usize];
        let args = [vu(&st.limbs), vu(x), V::n(n), V::n(a.code as usize)];
        EDGES.fetch_add(1, AO::Relaxed);
        let _ = take_noncanon();
        let got = match vharness::runner::guarded(|| dispatch(bits, Op::closure, &args)) {
            Ok(v) => v,
            Err(_) => V::Panic,
        };
        let nc = take_noncanon();
        let r = closure_ref(bits, a.code as usize, &big(&st.limbs), &big(x), n);
        let mut problem: Option<String> = None;
        if nc {
            problem = Some("non-canonical result".into());
        }
        let next = match (&got, &r) {
            (V::Some(v), Ref::Val(e)) => {
                EDGES_REF.fetch_add(1, AO::Relaxed);
                if **v != u(e, bits) {
                    problem.get_or_insert(format!("differs from the Z/2^BITS reference {e:#x}"));
                }
                Some(v.limbs().to_vec())
            }
            (V::Some(v), Ref::Unknown) => Some(v.limbs().to_vec()),
            (V::Some(v), Ref::NoTransition) => {
                problem.get_or_insert("a value where the reference has none (None / documented panic expected)".into());
                Some(v.limbs().to_vec())
            }
            (V::None | V::Panic, Ref::Val(e)) => {
                problem.get_or_insert(format!("no value ({got:?}) where the reference gives {e:#x}"));
                None
            }
            (V::None | V::Panic, _) => None,
            _ => {
                problem.get_or_insert("unexpected result shape".into());
                None
            }
        };
        if let Some(p) = problem {
            let mut b = BAD.lock().unwrap();
            if b.len() < 500 {
                b.push((a.code as usize, args.to_vec(), got.clone(), p));
            }
            return Some(St { limbs: next.unwrap_or_else(|| st.limbs.clone()), bad: Some(1) });
        }
        next.map(|l| St { limbs: l, bad: None })
    }
    fn properties(&self) -> Vec<Property<Self>> {
        vec![
            Property::always("canonical and equal to the reference transition", |_, s: &St| s.bad.is_none()),
            Property::always("bits at positions >= BITS are zero", |m: &Closure, s: &St| s.limbs.last().map_or(true, |t| t & !mask(m.bits) == 0)),
        ]
    }
}

fn run_closure(r: &Runner, bits: usize, depth: Option<usize>) {
    let m = pow2(bits);
    let (operands, init, desc): (Vec<Limbs>, Vec<Limbs>, String) = if bits <= 8 {
        (small_all(bits), vec![to_limbs(&BigUint::zero(), bits)], format!("all 2^{bits} operands"))
    } else {
        let mut ops = pow2_sparse(bits);
        if let Some(p) = limb_product(bits, A3) {
            if p.len() <= 40 {
                ops.extend(p);
            }
        }
        ops.sort();
        ops.dedup();
        let ops: Vec<Limbs> = if ops.len() > 48 { pick(bits, 48, &[]).0 } else { ops };
        let init = vec![to_limbs(&BigUint::zero(), bits), to_limbs(&(BigUint::one() % &m), bits), max_limbs(bits)];
        let d = format!("{} operands (P' + L(B;A3))", ops.len());
        (ops, init, d)
    };
    let mut amounts: Vec<usize> = vec![0, 1, bits.saturating_sub(1), bits, 63, 64, 65, bits + 64, 2, bits / 2];
    if bits <= 8 {
        amounts.extend(0..=bits + 2);
    }
    amounts.sort();
    amounts.dedup();
    let model = Closure { bits, operands, amounts, init };
    let nact = {
        let mut v = vec![];
        model.actions(&St { limbs: model.init[0].clone(), bad: None }, &mut v);
        v.len()
    };
    let e0 = EDGES.load(AO::Relaxed);
    let er0 = EDGES_REF.load(AO::Relaxed);
    BAD.lock().unwrap().clear();
    let t0 = std::time::Instant::now();
    let threads = std::thread::available_parallelism().map(|n| n.get()).unwrap_or(8);
    let mut cb = model.checker().threads(threads);
    if let Some(d) = depth {
        // stateright does not expand states at the target depth: d levels of operations = depth d + 1
        cb = cb.target_max_depth(d + 1);
    }
    let checker = cb.spawn_bfs().join();
    let (uniq, total, maxd) = (checker.unique_state_count(), checker.state_count(), checker.max_depth());
    let ndisc = checker.discoveries().len();
    drop(checker);
    let edges = EDGES.load(AO::Relaxed) - e0;
    let edges_ref = EDGES_REF.load(AO::Relaxed) - er0;
    // second run with DFS: the unique state count must agree (guards against nondeterminism in the model)
    let (uniq2, agree) = if depth.is_none() {
        let model2 = Closure { bits, operands: model_operands(bits), amounts: model_amounts(bits), init: vec![to_limbs(&BigUint::zero(), bits)] };
        let c2 = model2.checker().threads(threads).spawn_dfs().join();
        let u2 = c2.unique_state_count();
        (u2, u2 == uniq || ndisc > 0)
    } else {
        (uniq, true)
    };
    let bad: Vec<_> = std::mem::take(&mut *BAD.lock().unwrap());
    let name = format!("closure search at {bits} bits: {desc}, {nact} actions per state, depth {}", depth.map_or("unbounded (full closure)".to_string(), |d| d.to_string()));
    r.universe_seq(&name, bits, |l| {
        l.states(uniq as u64);
        l.bulk("closure", edges, edges_ref, 0b1_1001_1010);
        for (code, args, got, why) in &bad {
            let why = why.clone();
            l.record("closure", Op::closure.src(), bits, args, got.clone(), pred(&format!("{}: canonical and equal to the reference transition ({why})", CL_NAMES.get(*code).copied().unwrap_or("?")), |_| false));
        }
        if !agree {
            l.record("closure", "BFS vs DFS unique state counts", bits, &[V::n(uniq), V::n(uniq2)], V::Unit, pred("BFS and DFS reach the same number of unique states (model determinism)", |_| false));
        }
    });
    r.extra(
        &format!("closure_{bits}"),
        serde_json::json!({"unique_states": uniq, "states_generated": total, "max_depth": maxd, "edges_executed_on_impl": edges, "edges_compared_with_reference": edges_ref,
            "actions_per_state": nact, "dfs_unique_states": uniq2, "discoveries": ndisc, "wall_s": t0.elapsed().as_secs_f64()}),
    );
}
fn model_operands(bits: usize) -> Vec<Limbs> {
    small_all(bits)
}
fn model_amounts(bits: usize) -> Vec<usize> {
    let mut amounts: Vec<usize> = vec![0, 1, bits.saturating_sub(1), bits, 63, 64, 65, bits + 64, 2, bits / 2];
    amounts.extend(0..=bits + 2);
    amounts.sort();
    amounts.dedup();
    amounts
}

// ---------------------------------------------------------------- models for parts 2-3

fn model(bits: usize, op: Op, args: &[V]) -> Expect {
    use Op::*;
    let m = pow2(bits);
    let is_u = |g: &V| matches!(g, V::U(_));
    match op {
        cmp_all => {
            let (a, b) = (big(args[0].limbs()), big(args[1].limbs()));
            let o = a.cmp(&b) as i8 as i128;
            is(V::T(vec![
                V::B(a == b), V::B(a != b), V::B(a < b), V::B(a <= b), V::B(a > b), V::B(a >= b), V::I(o), V::some(V::I(o)),
                u(if a <= b { &a } else { &b }, bits), u(if a >= b { &a } else { &b }, bits), V::B(a == b), V::B(a.is_zero()),
            ]))
            .nt(true)
        }
        approx_pow2 | approx_pow2_of_log2 => pred("None or Some(canonical value)", |g| matches!(g, V::None) || matches!(g, V::Some(x) if matches!(**x, V::U(_)))).nt(true),
        ord_extras => {
            let (a, b, c) = (big(args[0].limbs()), big(args[1].limbs()), big(args[2].limbs()));
            let (lo, hi) = if b <= c { (b.clone(), c.clone()) } else { (c.clone(), b.clone()) };
            let cl = if a < lo { lo.clone() } else if a > hi { hi.clone() } else { a.clone() };
            let o = |x: std::cmp::Ordering| V::I(x as i8 as i128);
            is(V::T(vec![
                u(&cl, bits), u(&a, bits), u(&a, bits), u(if a >= b { &a } else { &b }, bits), u(if a <= b { &a } else { &b }, bits), u(if a > b { &a } else { &b }, bits),
                V::B(a < b), V::B(a <= b), V::B(a > b), V::B(a >= b), V::B(a != b), o([&a, &b].cmp(&[&b, &a])), V::B(b == c),
                V::some(u(if a > b { &a } else { &b }, bits)), V::some(u((&a).min(&b).min(&c), bits)),
            ]))
            .nt(true)
        }
        cmp_alias => model(bits, cmp_all, &[args[0].clone(), args[0].clone()]),
        routes => is(V::T(vec![V::B(true), V::B(true), V::B(true), V::B(true), V::I(0), V::B(true)])).nt(true),
        from_limbs | bits_from_limbs => {
            let s = args[0].limbs();
            let ok = s.last().map_or(true, |t| t & !mask(bits) == 0);
            is(if ok { V::U(s.to_vec()) } else { V::Panic }).nt(!ok)
        }
        from_limbs_slice | checked_from_limbs_slice | wrapping_from_limbs_slice | overflowing_from_limbs_slice | saturating_from_limbs_slice => {
            let v = big(args[0].limbs());
            let fits = v < m;
            let w = &v % &m;
            match op {
                from_limbs_slice => is(if fits { u(&v, bits) } else { V::Panic }),
                checked_from_limbs_slice => is(if fits { V::some(u(&v, bits)) } else { V::None }),
                wrapping_from_limbs_slice => is(u(&w, bits)),
                overflowing_from_limbs_slice => is(V::T(vec![u(&w, bits), V::B(!fits)])),
                _ => is(if fits { u(&v, bits) } else { V::U(max_limbs(bits)) }),
            }
            .nt(!fits)
        }
        from_base_le | from_base_be => {
            let b = args[0].as_n() as u64;
            let d = args[1].limbs();
            let mut v = BigUint::zero();
            let it: Vec<u64> = if op == from_base_le { d.iter().rev().copied().collect() } else { d.to_vec() };
            for x in it {
                v = v * b + x;
            }
            is(if v < m { V::some(u(&v, bits)) } else { V::None }).nt(v >= m)
        }
        from_str_radix => {
            let v = BigUint::parse_bytes(args[0].as_s().as_bytes(), args[1].as_n() as u32).expect("harness: valid text");
            is(if v < m { V::some(u(&v, bits)) } else { V::None }).nt(v >= m)
        }
        try_from_be_slice | try_from_le_slice => {
            let sb = args[0].as_bytes();
            let v = if op == try_from_be_slice { BigUint::from_bytes_be(sb) } else { BigUint::from_bytes_le(sb) };
            is(if sb.len() <= (bits + 7) / 8 && v < m { V::some(u(&v, bits)) } else { V::None }).nt(v >= m)
        }
        type_consts => is(V::T(vec![V::n(bits), V::n(nlimbs(bits)), V::N(mask(bits) as u128), V::n((bits + 7) / 8), V::n(bits), V::n(nlimbs(bits)), V::n((bits + 7) / 8)])).nt(true),
        helper_fns => {
            let b = args[0].as_n() as usize;
            let mk: u128 = if b == 0 { 0 } else if b % 64 == 0 { u64::MAX as u128 } else { (1u128 << (b % 64)) - 1 };
            is(V::T(vec![V::n((b + 63) / 64), V::N(mk), V::n((b + 7) / 8)])).nt(true)
        }
        consts => {
            let z = u(&BigUint::zero(), bits);
            is(V::T(vec![z.clone(), u(&(BigUint::one() % &m), bits), z.clone(), V::U(max_limbs(bits)), z.clone(), z])).nt(true)
        }
        rand08_standard | rand08_gen | rand09_random_with | rand09_randomize_with | rand09_standard_uniform => pred("a canonical value (any)", move |g| is_u(g)).nt(true),
        arbitrary | arbitrary_take_rest | proptest_any | proptest_any_bits => pred("None, or Some(canonical value)", |g| matches!(g, V::None) || matches!(g, V::Some(x) if matches!(**x, V::U(_)))).nt(true),
        quickcheck => pred("a list of canonical values", |g| matches!(g, V::L(_))).nt(true),
        closure => dont_care(),
    }
}

group_glue!();

fn tapes(len: usize) -> Vec<Vec<u8>> {
    // all-equal and single-deviation tapes over {00,01,7f,80,ff}, plus an ascending pattern
    let al = [0x00u8, 0x01, 0x7f, 0x80, 0xff];
    let mut out: Vec<Vec<u8>> = vec![vec![], (0..len).map(|i| (i * 37 + 11) as u8).collect()];
    for &x in &al {
        out.push(vec![x; len]);
        for &y in &al {
            if y == x {
                continue;
            }
            for i in 0..len {
                let mut t = vec![x; len];
                t[i] = y;
                out.push(t);
            }
        }
    }
    // truncated tapes (the generator runs out of entropy)
    for k in [1usize, 7, 8, 9] {
        if k < len {
            out.push(vec![0xff; k]);
        }
    }
    out.sort();
    out.dedup();
    out
}

fn c04(r: &Runner) {
    r.set_rule("part 1 (explicit-state search, stateright BFS, transition function = the real operations): widths 1..8: the FULL closure of {0} under 96 operations (incl. every compound assignment operator) with all 2^B operands and all amounts 0..B+2 and {63,64,65,B+64} - every reachable state must be canonical and every edge equal to the Z/2^B reference; widths 65,67,127,129,193,250: BFS from {0,1,MAX}, 2 (3 thorough) levels of operations applied to results of operations with P'(B)+L(B;A3) operands. part 2: ==, !=, <, <=, >, >=, cmp, partial_cmp, min, max, Hash, is_zero on all pairs of S(B), B <= 8 (10), and of the wide universes; equal values reached by different routes are == and hash alike. part 3: from_limbs / from_limbs_slice family over limb tuples incl. top limbs above the mask; rand 0.8 / 0.9, arbitrary, proptest generators driven by ENUMERATED byte tapes (all-equal and single-deviation tapes over {00,01,7f,80,ff}); quickcheck::Gen owns a private entropy-seeded RNG that cannot be replaced: its 2000 draws per width are SAMPLED and not counted as exhaustive. part 4 (ill-formed types) is appended by the probe engine");
    // ---- part 1
    let small: Vec<usize> = if r.is_thorough() { (0..=8).collect() } else { vec![0, 1, 2, 3, 4, 5, 6, 7, 8] };
    for bits in small {
        run_closure(r, bits, None);
    }
    let wide_w: &[usize] = if r.is_thorough() { &[63, 64, 65, 67, 127, 128, 129, 193, 250, 256, 257] } else { &[65, 67, 127, 129, 193, 250] };
    for &bits in wide_w {
        run_closure(r, bits, Some(if r.is_thorough() { 3 } else { 2 }));
    }
    // ---- part 2
    let ws: Vec<usize> = if r.is_thorough() { WIDTHS.to_vec() } else { vec![0, 1, 2, 3, 4, 5, 6, 7, 8, 63, 64, 65, 127, 128, 129, 192, 256, 257, 1100, 1216, 2100, 4160] };
    for &bits in &ws {
        let (uv, d) = if bits <= 10 { (small_all(bits), format!("S({bits})")) } else { pick(bits, if r.is_thorough() { 2500 } else { 700 }, &salt(r.seed)) };
        let mp = pow2(bits);
        r.universe(&format!("({d})^2 comparisons, hashing, routes"), bits, uv.len(), |i, l| {
            let a = vu(&uv[i]);
            let ba = big(&uv[i]);
            exec(l, bits, Op::cmp_alias, &[a.clone()]);
            // triples on a thinner third axis
            for b in uv.iter().step_by((uv.len() / 24).max(1)) {
                for c in uv.iter().step_by((uv.len() / 12).max(1)) {
                    exec(l, bits, Op::ord_extras, &[a.clone(), vu(b), vu(c)]);
                }
            }
            for b in &uv {
                l.states(1);
                exec(l, bits, Op::cmp_all, &[a.clone(), vu(b)]);
                let e = (&ba + big(b)) % &mp;
                exec(l, bits, Op::routes, &[a.clone(), vu(b), u(&e, bits)]);
            }
        });
        // two operands that differ at exactly two limb positions (i, j), in opposite directions: every (i, j)
        if bits >= 128 {
            let nl = nlimbs(bits);
            let g = golden(nl);
            let bases: Vec<Limbs> = vec![vec![1u64; nl], (0..nl).map(|k| if k == nl - 1 { (g[k] & (mask(bits) >> 1)) | 1 } else { g[k] | 1 }).collect()];
            r.universe(&format!("comparisons of operands differing at two limb positions: all {nl}^2 position pairs x 2 bases"), bits, nl * nl, |ij, l| {
                let (i, j) = (ij / nl, ij % nl);
                for base in &bases {
                    let mut b = base.clone();
                    b[i] += 1;
                    b[j] -= 1;
                    if b[nl - 1] & !mask(bits) != 0 || base[nl - 1] & !mask(bits) != 0 {
                        continue;
                    }
                    l.states(1);
                    exec(l, bits, Op::cmp_all, &[vu(base), vu(&b)]);
                    exec(l, bits, Op::cmp_all, &[vu(&b), vu(base)]);
                }
            });
        }
        // ---- part 3: constructors
        let nl = nlimbs(bits);
        let mut slices: Vec<Limbs> = vec![];
        for len in 0..=nl + 2 {
            let al: &[u64] = if len <= 3 { A8 } else if len <= 5 { A5 } else { A3 };
            let mut cur: Vec<Limbs> = vec![vec![]];
            if len > 7 {
                cur = runs(64 * len, &[0, 1, 1 << 63, u64::MAX]);
            }
            for _ in 0..(if len > 7 { 0 } else { len }) {
                let mut nx = vec![];
                for v in &cur {
                    for &x in al {
                        let mut w = v.clone();
                        w.push(x);
                        nx.push(w);
                    }
                }
                cur = nx;
            }
            if len == nl && nl > 0 {
                let mk = mask(bits);
                for x in [mk, mk.wrapping_add(1), mk >> 1, mk.wrapping_sub(1), !mk, mk | (1 << 63)] {
                    let mut w = vec![u64::MAX; nl];
                    w[nl - 1] = x;
                    cur.push(w.clone());
                    w[0] = 0;
                    cur.push(w);
                }
            }
            slices.extend(cur);
        }
        slices.sort();
        slices.dedup();
        r.universe(&format!("constructors on {} limb tuples (length 0..={})", slices.len(), nl + 2), bits, slices.len(), |i, l| {
            let args = [V::U(slices[i].clone())];
            l.states(1);
            for op in [Op::from_limbs_slice, Op::checked_from_limbs_slice, Op::wrapping_from_limbs_slice, Op::overflowing_from_limbs_slice, Op::saturating_from_limbs_slice] {
                exec(l, bits, op, &args);
            }
            if slices[i].len() == nl {
                exec(l, bits, Op::from_limbs, &args);
                exec(l, bits, Op::bits_from_limbs, &args);
            }
        });
        // decoders fed with values around and above 2^BITS (must reject, never wrap into a non-canonical value)
        {
            let full = pow2(64 * nl);
            let mut vals: Vec<BigUint> = vec![];
            for base in [mp.clone(), full.clone(), &mp << 1, &full << 64usize] {
                for dlt in 0..3u32 {
                    vals.push(&base + dlt);
                    if base > BigUint::from(dlt) {
                        vals.push(&base - dlt);
                    }
                }
                vals.push(&base | (&base >> 1));
            }
            vals.sort();
            vals.dedup();
            let bases: Vec<u64> = vec![2, 3, 10, 16, 255, 256, (1 << 32) - 1, 1 << 32, 10_000_000_000_000_000_000, 1 << 63, u64::MAX];
            r.universe(&format!("decoders on {} values around 2^BITS and 2^(64*LIMBS) x {} bases", vals.len(), bases.len()), bits, vals.len(), |i, l| {
                let v = &vals[i];
                l.states(1);
                for &b in &bases {
                    let mut d = vec![];
                    let mut t = v.clone();
                    while !t.is_zero() {
                        d.push((&t % b).iter_u64_digits().next().unwrap_or(0));
                        t /= b;
                    }
                    let be: Vec<u64> = d.iter().rev().copied().collect();
                    exec(l, bits, Op::from_base_le, &[V::N(b as u128), V::U(d.clone())]);
                    exec(l, bits, Op::from_base_be, &[V::N(b as u128), V::U(be)]);
                }
                for radix in [2u32, 8, 10, 16, 36] {
                    exec(l, bits, Op::from_str_radix, &[V::S(v.to_str_radix(radix)), V::N(radix as u128)]);
                }
                let le = if v.is_zero() { vec![] } else { v.to_bytes_le() };
                let be: Vec<u8> = le.iter().rev().copied().collect();
                exec(l, bits, Op::try_from_le_slice, &[V::Bytes(le)]);
                exec(l, bits, Op::try_from_be_slice, &[V::Bytes(be)]);
            });
        }
        {
            // exponents: every integer 0..=BITS+2 and its neighbours by 0.5 and by one ulp, specials
            let mut ex: Vec<f64> = vec![f64::NAN, f64::INFINITY, f64::NEG_INFINITY, -0.0, -1.0, -1.5, -2.0, 0.584, 0.585, 1e300, -1e300, f64::MIN_POSITIVE];
            for k in 0..=bits + 2 {
                let f = k as f64;
                ex.extend([f, f + 0.5, f - 0.5, f64::from_bits(f.to_bits() + 1), if f > 0.0 { f64::from_bits(f.to_bits() - 1) } else { 0.0 }, f + 0.999_999, f + 0.415_037_499_278_843_8]);
            }
            r.universe(&format!("approx_pow2 on {} exponents (every integer 0..=BITS+2, +-0.5, +-1 ulp, specials)", ex.len()), bits, ex.len(), |i, l| {
                l.states(1);
                exec(l, bits, Op::approx_pow2, &[V::F(ex[i].to_bits())]);
            });
            let pv = pow2_nbhd(bits);
            r.universe(&format!("approx_pow2(approx_log2(x)) on P({bits})"), bits, pv.len(), |i, l| {
                l.states(1);
                exec(l, bits, Op::approx_pow2_of_log2, &[vu(&pv[i])]);
            });
        }
        r.universe_seq("constants", bits, |l| {
            l.states(1);
            exec(l, bits, Op::consts, &[]);
            exec(l, bits, Op::type_consts, &[]);
        });
        // ---- part 3: generators on enumerated tapes
        let tp = tapes(8 * nl.max(1) + 8);
        r.universe(&format!("generators on {} enumerated RNG tapes", tp.len()), bits, tp.len(), |i, l| {
            let t = V::Bytes(tp[i].clone());
            l.states(1);
            for op in [Op::rand08_standard, Op::rand08_gen, Op::rand09_random_with, Op::rand09_standard_uniform, Op::arbitrary, Op::arbitrary_take_rest, Op::proptest_any, Op::proptest_any_bits] {
                exec(l, bits, op, &[t.clone()]);
            }
            exec(l, bits, Op::rand09_randomize_with, &[V::U(max_limbs(bits)), t.clone()]);
        });
        r.universe_seq("quickcheck::Gen (SAMPLED: private entropy-seeded RNG, not enumerable)", bits, |l| {
            for size in [0usize, 1, 10, 100] {
                l.states(1);
                exec(l, bits, Op::quickcheck, &[V::n(size), V::n(500)]);
            }
        });
    }
    r.universe("public helpers nlimbs / mask / nbytes on every bit count 0..=8200", 0, 8201, |i, l| {
        l.states(1);
        exec(l, 0, Op::helper_fns, &[V::n(i)]);
    });
    r.extra("closure_operations", serde_json::json!(CL_NAMES));
    r.extra("sampled_not_exhaustive", serde_json::json!(["quickcheck::Gen draws (4 x 500 per width): the RNG is private to the crate and entropy-seeded"]));
}

fn main() {
    let (prop, tier, seed, replay_path) = args_env();
    if let Some(p) = replay_path {
        std::process::exit(replay(&p));
    }
    let r = Runner::new("mc_canon", &prop, &tier, seed);
    r.assume("stateright 0.31 BFS bookkeeping is trusted; the search is repeated with DFS at the fully closed widths and the unique-state counts must agree");
    r.assume("closure edges without a reference (checked/saturating pow, root, gcd_extended cofactors, signed and float sources) are checked for canonicity only; their values are decided by C07, C12, C13, C18");
    r.assume("quickcheck::Gen cannot be driven by a tape: sampled, labelled, not counted as exhaustive");
    match prop.as_str() {
        "C04" => c04(&r),
        _ => {
            eprintln!("mc_canon: unknown property '{prop}' (C04)");
            std::process::exit(2);
        }
    }
    std::process::exit(r.finish());
}
