//! Group `arith` at the standard width grid (body: src/groups/arith.rs).
#![allow(clippy::all, dead_code, unused)]
macro_rules! width_list {
    () => {
        dispatch_widths!(dispatch, call, Op;
            0, 1, 2, 3, 4, 5, 6, 7, 8, 9, 10, 11, 12, 16, 17, 24, 31, 32, 33, 39, 40,
    60, 63, 64, 65, 72, 120, 127, 128, 129, 191, 192, 193, 200, 250, 255, 256, 257, 320, 384, 448, 511, 512, 513, 1024, 1025, 1216, 2048, 4096, 4160, 4672, 65536, 131072);
    };
}
const SWEEP: bool = false;
include!("../groups/arith.rs");
