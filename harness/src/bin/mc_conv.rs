//! Group `conv` at the standard width grid (body: src/groups/conv.rs).
#![allow(clippy::all, dead_code, unused)]
macro_rules! width_list {
    () => {
        dispatch_widths!(dispatch, call, Op;
            0, 1, 2, 3, 4, 5, 6, 7, 8, 9, 10, 11, 12, 13, 14, 15, 16, 17, 24, 25, 31, 32, 33, 53, 54,
    40, 60, 63, 64, 65, 66, 72, 120, 121, 127, 128, 129, 136, 191, 192, 193, 200, 250, 255, 256, 257, 320, 384, 511, 512, 513,
    1023, 1024, 1025, 1100, 2048, 65664);
    };
}
const SWEEP: bool = false;
include!("../groups/conv.rs");
