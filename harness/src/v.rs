//! Value tree `V`: the only thing that crosses the boundary between the
//! width-generic shims (which call ruint) and the non-generic engine
//! (universes, reference models, comparison, evidence, replay).

use ruint::{Bits, Uint};
use serde_json::{json, Value as J};
use std::cell::Cell;

#[derive(Clone, Debug, PartialEq, Eq, Hash, PartialOrd, Ord)]
pub enum V {
    /// Raw limbs of a Uint/Bits (little-endian), exactly as `as_limbs()` shows them.
    U(Vec<u64>),
    N(u128),
    I(i128),
    B(bool),
    Bytes(Vec<u8>),
    S(String),
    /// f64 by bit pattern
    F(u64),
    /// f32 by bit pattern
    F32(u32),
    Unit,
    None,
    Some(Box<V>),
    Ok(Box<V>),
    Err(Box<V>),
    T(Vec<V>),
    L(Vec<V>),
    Panic,
    Timeout,
}

thread_local! {
    /// Set when a Uint with bits above BITS set was converted to a `V`.
    pub static NONCANON: Cell<bool> = const { Cell::new(false) };
}

pub fn take_noncanon() -> bool {
    NONCANON.with(|c| c.replace(false))
}

pub fn mask(bits: usize) -> u64 {
    if bits == 0 {
        0
    } else if bits % 64 == 0 {
        u64::MAX
    } else {
        (1u64 << (bits % 64)) - 1
    }
}
pub fn nlimbs(bits: usize) -> usize {
    (bits + 63) / 64
}

impl V {
    pub fn some(v: V) -> V {
        V::Some(Box::new(v))
    }
    pub fn ok(v: V) -> V {
        V::Ok(Box::new(v))
    }
    pub fn err(v: V) -> V {
        V::Err(Box::new(v))
    }
    pub fn s(x: &str) -> V {
        V::S(x.to_string())
    }
    pub fn n(x: usize) -> V {
        V::N(x as u128)
    }
    pub fn limbs(&self) -> &[u64] {
        match self {
            V::U(l) => l,
            _ => panic!("harness: expected U, got {self:?}"),
        }
    }
    pub fn as_n(&self) -> u128 {
        match self {
            V::N(n) => *n,
            _ => panic!("harness: expected N, got {self:?}"),
        }
    }
    pub fn as_i(&self) -> i128 {
        match self {
            V::I(n) => *n,
            _ => panic!("harness: expected I, got {self:?}"),
        }
    }
    pub fn as_b(&self) -> bool {
        match self {
            V::B(n) => *n,
            _ => panic!("harness: expected B, got {self:?}"),
        }
    }
    pub fn as_bytes(&self) -> &[u8] {
        match self {
            V::Bytes(b) => b,
            _ => panic!("harness: expected Bytes, got {self:?}"),
        }
    }
    pub fn as_s(&self) -> &str {
        match self {
            V::S(b) => b,
            _ => panic!("harness: expected S, got {self:?}"),
        }
    }
    pub fn as_l(&self) -> &[V] {
        match self {
            V::L(b) | V::T(b) => b,
            _ => panic!("harness: expected L, got {self:?}"),
        }
    }
    pub fn as_f64(&self) -> f64 {
        match self {
            V::F(b) => f64::from_bits(*b),
            _ => panic!("harness: expected F, got {self:?}"),
        }
    }
    pub fn as_f32(&self) -> f32 {
        match self {
            V::F32(b) => f32::from_bits(*b),
            _ => panic!("harness: expected F32, got {self:?}"),
        }
    }

    /// Coarse outcome class (for the `outcome_classes` evidence counter).
    pub fn class(&self) -> u8 {
        match self {
            V::Panic => 1,
            V::Timeout => 2,
            V::None => 3,
            V::Some(_) => 4,
            V::Ok(_) => 5,
            V::Err(_) => 6,
            V::T(v) => match v.last() {
                Some(V::B(true)) => 7,
                Some(V::B(false)) => 8,
                _ => 9,
            },
            V::B(true) => 10,
            V::B(false) => 11,
            _ => 0,
        }
    }

    pub fn to_json(&self) -> J {
        match self {
            V::U(l) => json!({"U": l.iter().map(|x| format!("{x:#x}")).collect::<Vec<_>>()}),
            V::N(n) => json!({"N": n.to_string()}),
            V::I(n) => json!({"I": n.to_string()}),
            V::B(b) => json!({"B": b}),
            V::Bytes(b) => json!({"Bytes": b.iter().map(|x| format!("{x:02x}")).collect::<String>()}),
            V::S(s) => json!({"S": s}),
            V::F(b) => json!({"F": format!("{b:#018x}"), "approx": format!("{:e}", f64::from_bits(*b))}),
            V::F32(b) => json!({"F32": format!("{b:#010x}"), "approx": format!("{:e}", f32::from_bits(*b))}),
            V::Unit => json!("Unit"),
            V::None => json!("None"),
            V::Panic => json!("Panic"),
            V::Timeout => json!("Timeout"),
            V::Some(v) => json!({"Some": v.to_json()}),
            V::Ok(v) => json!({"Ok": v.to_json()}),
            V::Err(v) => json!({"Err": v.to_json()}),
            V::T(v) => json!({"T": v.iter().map(V::to_json).collect::<Vec<_>>()}),
            V::L(v) => json!({"L": v.iter().map(V::to_json).collect::<Vec<_>>()}),
        }
    }

    pub fn from_json(j: &J) -> Result<V, String> {
        if let Some(s) = j.as_str() {
            return match s {
                "Unit" => Ok(V::Unit),
                "None" => Ok(V::None),
                "Panic" => Ok(V::Panic),
                "Timeout" => Ok(V::Timeout),
                _ => Err(format!("bad V string {s}")),
            };
        }
        let o = j.as_object().ok_or("V: expected object")?;
        let hex = |s: &str| u64::from_str_radix(s.trim_start_matches("0x"), 16).map_err(|e| e.to_string());
        if let Some(x) = o.get("U") {
            let mut l = vec![];
            for e in x.as_array().ok_or("U")? {
                l.push(hex(e.as_str().ok_or("U elem")?)?);
            }
            return Ok(V::U(l));
        }
        if let Some(x) = o.get("N") {
            return Ok(V::N(x.as_str().ok_or("N")?.parse().map_err(|_| "N parse")?));
        }
        if let Some(x) = o.get("I") {
            return Ok(V::I(x.as_str().ok_or("I")?.parse().map_err(|_| "I parse")?));
        }
        if let Some(x) = o.get("B") {
            return Ok(V::B(x.as_bool().ok_or("B")?));
        }
        if let Some(x) = o.get("Bytes") {
            let s = x.as_str().ok_or("Bytes")?;
            let mut b = vec![];
            for i in (0..s.len()).step_by(2) {
                b.push(u8::from_str_radix(&s[i..i + 2], 16).map_err(|e| e.to_string())?);
            }
            return Ok(V::Bytes(b));
        }
        if let Some(x) = o.get("S") {
            return Ok(V::S(x.as_str().ok_or("S")?.to_string()));
        }
        if let Some(x) = o.get("F") {
            return Ok(V::F(hex(x.as_str().ok_or("F")?)?));
        }
        if let Some(x) = o.get("F32") {
            return Ok(V::F32(hex(x.as_str().ok_or("F32")?)? as u32));
        }
        for (k, f) in [("Some", V::some as fn(V) -> V), ("Ok", V::ok), ("Err", V::err)] {
            if let Some(x) = o.get(k) {
                return Ok(f(V::from_json(x)?));
            }
        }
        for (k, t) in [("T", true), ("L", false)] {
            if let Some(x) = o.get(k) {
                let mut l = vec![];
                for e in x.as_array().ok_or("T/L")? {
                    l.push(V::from_json(e)?);
                }
                return Ok(if t { V::T(l) } else { V::L(l) });
            }
        }
        Err(format!("bad V json {j}"))
    }
}

// ---------------------------------------------------------------- into V

/// u128 shown as two raw limbs
#[allow(non_camel_case_types)]
pub struct u128w(pub u128);

pub trait IntoV {
    fn into_v(self) -> V;
}

impl IntoV for V {
    fn into_v(self) -> V {
        self
    }
}

impl<const B: usize, const L: usize> IntoV for Uint<B, L> {
    #[inline]
    fn into_v(self) -> V {
        let l = self.as_limbs();
        if L > 0 && l[L - 1] & !mask(B) != 0 {
            NONCANON.with(|c| c.set(true));
        }
        V::U(l.to_vec())
    }
}
impl<const B: usize, const L: usize> IntoV for &Uint<B, L> {
    #[inline]
    fn into_v(self) -> V {
        (*self).into_v()
    }
}
impl<const B: usize, const L: usize> IntoV for Bits<B, L> {
    #[inline]
    fn into_v(self) -> V {
        self.into_inner().into_v()
    }
}
macro_rules! into_n {
    ($($t:ty),*) => {$( impl IntoV for $t { #[inline] fn into_v(self) -> V { V::N(self as u128) } } )*};
}
into_n!(u8, u16, u32, u64, u128, usize);
macro_rules! into_i {
    ($($t:ty),*) => {$( impl IntoV for $t { #[inline] fn into_v(self) -> V { V::I(self as i128) } } )*};
}
into_i!(i8, i16, i32, i64, i128, isize);
impl IntoV for bool {
    #[inline]
    fn into_v(self) -> V {
        V::B(self)
    }
}
impl IntoV for f64 {
    fn into_v(self) -> V {
        V::F(self.to_bits())
    }
}
impl IntoV for f32 {
    fn into_v(self) -> V {
        V::F32(self.to_bits())
    }
}
impl IntoV for () {
    fn into_v(self) -> V {
        V::Unit
    }
}
impl IntoV for String {
    fn into_v(self) -> V {
        V::S(self)
    }
}
impl IntoV for &str {
    fn into_v(self) -> V {
        V::S(self.to_string())
    }
}
impl IntoV for char {
    fn into_v(self) -> V {
        V::S(self.to_string())
    }
}
impl IntoV for Vec<u8> {
    fn into_v(self) -> V {
        V::Bytes(self)
    }
}
impl IntoV for &[u8] {
    fn into_v(self) -> V {
        V::Bytes(self.to_vec())
    }
}
impl<const N: usize> IntoV for [u8; N] {
    fn into_v(self) -> V {
        V::Bytes(self.to_vec())
    }
}
impl<const N: usize> IntoV for [u64; N] {
    fn into_v(self) -> V {
        V::U(self.to_vec())
    }
}
impl IntoV for u128w {
    fn into_v(self) -> V {
        V::U(vec![self.0 as u64, (self.0 >> 64) as u64])
    }
}
impl IntoV for Vec<u64> {
    fn into_v(self) -> V {
        V::U(self)
    }
}
impl IntoV for std::cmp::Ordering {
    fn into_v(self) -> V {
        V::I(self as i8 as i128)
    }
}
impl<T: IntoV> IntoV for Option<T> {
    #[inline]
    fn into_v(self) -> V {
        match self {
            Some(x) => V::some(x.into_v()),
            None => V::None,
        }
    }
}
impl<T: IntoV, E: IntoV> IntoV for Result<T, E> {
    fn into_v(self) -> V {
        match self {
            Ok(x) => V::ok(x.into_v()),
            Err(x) => V::err(x.into_v()),
        }
    }
}
impl<A: IntoV, B: IntoV> IntoV for (A, B) {
    #[inline]
    fn into_v(self) -> V {
        V::T(vec![self.0.into_v(), self.1.into_v()])
    }
}
impl<A: IntoV, B: IntoV, C: IntoV> IntoV for (A, B, C) {
    fn into_v(self) -> V {
        V::T(vec![self.0.into_v(), self.1.into_v(), self.2.into_v()])
    }
}
impl<A: IntoV, B: IntoV, C: IntoV, D: IntoV> IntoV for (A, B, C, D) {
    fn into_v(self) -> V {
        V::T(vec![self.0.into_v(), self.1.into_v(), self.2.into_v(), self.3.into_v()])
    }
}
impl<A: IntoV, B: IntoV, C: IntoV, D: IntoV, E: IntoV> IntoV for (A, B, C, D, E) {
    fn into_v(self) -> V {
        V::T(vec![self.0.into_v(), self.1.into_v(), self.2.into_v(), self.3.into_v(), self.4.into_v()])
    }
}
impl<A: IntoV, B: IntoV, C: IntoV, D: IntoV, E: IntoV, F: IntoV> IntoV for (A, B, C, D, E, F) {
    fn into_v(self) -> V {
        V::T(vec![self.0.into_v(), self.1.into_v(), self.2.into_v(), self.3.into_v(), self.4.into_v(), self.5.into_v()])
    }
}
impl<A: IntoV, B: IntoV, C: IntoV, D: IntoV, E: IntoV, F: IntoV, G: IntoV> IntoV for (A, B, C, D, E, F, G) {
    fn into_v(self) -> V {
        V::T(vec![self.0.into_v(), self.1.into_v(), self.2.into_v(), self.3.into_v(), self.4.into_v(), self.5.into_v(), self.6.into_v()])
    }
}
impl<T: IntoV> IntoV for ruint::ToUintError<T> {
    fn into_v(self) -> V {
        match self {
            ruint::ToUintError::ValueTooLarge(b, x) => V::T(vec![V::s("ValueTooLarge"), V::n(b), x.into_v()]),
            ruint::ToUintError::ValueNegative(b, x) => V::T(vec![V::s("ValueNegative"), V::n(b), x.into_v()]),
            ruint::ToUintError::NotANumber(b) => V::T(vec![V::s("NotANumber"), V::n(b)]),
        }
    }
}
impl<T: IntoV> IntoV for ruint::FromUintError<T> {
    fn into_v(self) -> V {
        match self {
            ruint::FromUintError::Overflow(b, w, m) => V::T(vec![V::s("Overflow"), V::n(b), w.into_v(), m.into_v()]),
        }
    }
}
impl IntoV for ruint::BaseConvertError {
    fn into_v(self) -> V {
        match self {
            ruint::BaseConvertError::Overflow => V::s("Overflow"),
            ruint::BaseConvertError::InvalidBase(b) => V::T(vec![V::s("InvalidBase"), V::N(b as u128)]),
            ruint::BaseConvertError::InvalidDigit(d, b) => V::T(vec![V::s("InvalidDigit"), V::N(d as u128), V::N(b as u128)]),
        }
    }
}
impl IntoV for ruint::ParseError {
    fn into_v(self) -> V {
        match self {
            ruint::ParseError::InvalidDigit(c) => V::T(vec![V::s("InvalidChar"), V::S(c.to_string())]),
            ruint::ParseError::InvalidRadix(r) => V::T(vec![V::s("InvalidRadix"), V::N(r as u128)]),
            ruint::ParseError::BaseConvertError(e) => e.into_v(),
        }
    }
}

// ---------------------------------------------------------------- from V

/// Extract a typed argument from a `V` (used by the shims).
pub trait FromV<const B: usize, const L: usize>: Sized {
    fn from_v(v: &V) -> Self;
}
impl<const B: usize, const L: usize> FromV<B, L> for Uint<B, L> {
    #[inline]
    fn from_v(v: &V) -> Self {
        let l = v.limbs();
        let mut a = [0u64; L];
        a.copy_from_slice(l);
        Uint::from_limbs(a)
    }
}
impl<const B: usize, const L: usize> FromV<B, L> for Bits<B, L> {
    #[inline]
    fn from_v(v: &V) -> Self {
        Bits::from(<Uint<B, L> as FromV<B, L>>::from_v(v))
    }
}
macro_rules! from_n {
    ($($t:ty),*) => {$( impl<const B: usize, const L: usize> FromV<B, L> for $t { #[inline] fn from_v(v: &V) -> Self { v.as_n() as $t } } )*};
}
from_n!(u8, u16, u32, u64, u128, usize);
macro_rules! from_i {
    ($($t:ty),*) => {$( impl<const B: usize, const L: usize> FromV<B, L> for $t { #[inline] fn from_v(v: &V) -> Self { v.as_i() as $t } } )*};
}
from_i!(i8, i16, i32, i64, i128, isize);
impl<const B: usize, const L: usize> FromV<B, L> for bool {
    fn from_v(v: &V) -> Self {
        v.as_b()
    }
}
impl<const B: usize, const L: usize> FromV<B, L> for f64 {
    fn from_v(v: &V) -> Self {
        v.as_f64()
    }
}
impl<const B: usize, const L: usize> FromV<B, L> for f32 {
    fn from_v(v: &V) -> Self {
        v.as_f32()
    }
}
impl<const B: usize, const L: usize> FromV<B, L> for Vec<u8> {
    fn from_v(v: &V) -> Self {
        v.as_bytes().to_vec()
    }
}
impl<const B: usize, const L: usize> FromV<B, L> for String {
    fn from_v(v: &V) -> Self {
        v.as_s().to_string()
    }
}
impl<const B: usize, const L: usize> FromV<B, L> for Vec<u64> {
    fn from_v(v: &V) -> Self {
        match v {
            V::U(l) => l.clone(),
            V::L(l) => l.iter().map(|x| x.as_n() as u64).collect(),
            _ => panic!("harness: expected U/L"),
        }
    }
}
impl<const B: usize, const L: usize> FromV<B, L> for Vec<Uint<B, L>> {
    fn from_v(v: &V) -> Self {
        v.as_l().iter().map(|x| <Uint<B, L> as FromV<B, L>>::from_v(x)).collect()
    }
}
impl<const B: usize, const L: usize> FromV<B, L> for V {
    fn from_v(v: &V) -> Self {
        v.clone()
    }
}

/// Rust source text of a value, for `rust_repro`.
pub fn rust_lit(v: &V, bits: usize) -> String {
    match v {
        V::U(l) => format!(
            "Uint::<{bits}, {}>::from_limbs([{}])",
            l.len(),
            l.iter().map(|x| format!("{x:#x}")).collect::<Vec<_>>().join(", ")
        ),
        V::N(n) => format!("{n}"),
        V::I(n) => format!("{n}"),
        V::B(b) => format!("{b}"),
        V::Bytes(b) => format!("vec![{}]", b.iter().map(|x| format!("{x:#04x}u8")).collect::<Vec<_>>().join(", ")),
        V::S(s) => format!("{s:?}.to_string()"),
        V::F(b) => format!("f64::from_bits({b:#x})"),
        V::F32(b) => format!("f32::from_bits({b:#x})"),
        V::L(l) | V::T(l) => format!("vec![{}]", l.iter().map(|x| rust_lit(x, bits)).collect::<Vec<_>>().join(", ")),
        other => format!("/* {other:?} */"),
    }
}
