//! Finite universes of operands. Every generator enumerates its set completely
//! and deterministically (sorted, de-duplicated), simplest first.

use crate::v::{mask, nlimbs};
use num_bigint::BigUint;
use num_traits::{One, Zero};

pub type Limbs = Vec<u64>;

pub const A3: &[u64] = &[0, 1, u64::MAX];
pub const A4: &[u64] = &[0, 1, 1 << 63, u64::MAX];
pub const A5: &[u64] = &[0, 1, 1 << 63, u64::MAX - 1, u64::MAX];
pub const A8: &[u64] = &[0, 1, 2, (1 << 63) - 1, 1 << 63, (1 << 63) + 1, u64::MAX - 1, u64::MAX];

/// Product cap: A^LIMBS is only formed below this size.
pub const PRODUCT_CAP: usize = 200_000;

pub fn big(l: &[u64]) -> BigUint {
    let mut b = Vec::with_capacity(l.len() * 8);
    for x in l {
        b.extend_from_slice(&x.to_le_bytes());
    }
    BigUint::from_bytes_le(&b)
}

/// Limbs of `v` padded to the limb count of `bits`. `v` must be < 2^bits.
pub fn to_limbs(v: &BigUint, bits: usize) -> Limbs {
    let mut d = v.to_u64_digits();
    let n = nlimbs(bits);
    assert!(d.len() <= n, "harness: value does not fit {bits} bits");
    d.resize(n, 0);
    if n > 0 {
        assert!(d[n - 1] & !mask(bits) == 0, "harness: value does not fit {bits} bits");
    }
    d
}
/// Limbs of `v` padded to `n` limbs (no range check other than length).
pub fn to_limbs_n(v: &BigUint, n: usize) -> Limbs {
    let mut d = v.to_u64_digits();
    assert!(d.len() <= n, "harness: value does not fit {n} limbs");
    d.resize(n, 0);
    d
}

pub fn pow2(k: usize) -> BigUint {
    BigUint::one() << k
}

/// Salt limbs selected by VERIF_SEED: added to alphabets (the product is still complete).
pub fn salt(seed: u64) -> Vec<u64> {
    // splitmix64
    let mut x = seed.wrapping_add(0x9E37_79B9_7F4A_7C15);
    let mut next = || {
        x = x.wrapping_add(0x9E37_79B9_7F4A_7C15);
        let mut z = x;
        z = (z ^ (z >> 30)).wrapping_mul(0xBF58_476D_1CE4_E5B9);
        z = (z ^ (z >> 27)).wrapping_mul(0x94D0_49BB_1331_11EB);
        z ^ (z >> 31)
    };
    vec![next(), next() | (1 << 63)]
}

fn finish(mut v: Vec<Limbs>) -> Vec<Limbs> {
    // order: numerically ascending (compare from the top limb)
    v.sort_by(|a, b| a.iter().rev().cmp(b.iter().rev()));
    v.dedup();
    v
}

/// S(B): all 2^bits values (bits <= 20).
pub fn small_all(bits: usize) -> Vec<Limbs> {
    assert!(bits <= 20);
    if bits == 0 {
        return vec![vec![]];
    }
    (0..(1u64 << bits)).map(|v| vec![v]).collect()
}

/// L(B; A): the full product A^LIMBS, the top limb intersected with the mask and the
/// mask-derived values added. Returns None if the product exceeds the cap.
pub fn limb_product(bits: usize, alphabet: &[u64]) -> Option<Vec<Limbs>> {
    let n = nlimbs(bits);
    if n == 0 {
        return Some(vec![vec![]]);
    }
    let m = mask(bits);
    let mut top: Vec<u64> = alphabet.iter().map(|a| a & m).collect();
    top.extend([m, m.wrapping_sub(1) & m, m >> 1, ((m >> 1) + 1) & m]);
    top.sort();
    top.dedup();
    let mut size = top.len();
    for _ in 1..n {
        size = size.saturating_mul(alphabet.len());
    }
    if size > PRODUCT_CAP {
        return None;
    }
    let mut out: Vec<Limbs> = vec![vec![]];
    for i in 0..n {
        let al: &[u64] = if i == n - 1 { &top } else { alphabet };
        let mut next = Vec::with_capacity(out.len() * al.len());
        for v in &out {
            for &a in al {
                let mut w = v.clone();
                w.push(a);
                next.push(w);
            }
        }
        out = next;
    }
    Some(finish(out))
}

pub const RUN_YS: &[u64] = &[
    0,
    1,
    2,
    3,
    (1 << 31),
    (1 << 32) - 1,
    1 << 32,
    (1 << 32) + 1,
    (1 << 53) + 1,
    (1 << 62) - 1,
    1 << 62,
    (1 << 63) - 1,
    1 << 63,
    (1 << 63) + 1,
    0x5555_5555_5555_5555,
    0xaaaa_aaaa_aaaa_aaaa,
    u64::MAX - 1,
    u64::MAX,
];

/// R(B): run/shape universe: limbs = x^i . y . z^(n-1-i), x,z in {0,MAX}, y in `ys`.
pub fn runs(bits: usize, ys: &[u64]) -> Vec<Limbs> {
    let n = nlimbs(bits);
    if n == 0 {
        return vec![vec![]];
    }
    let m = mask(bits);
    let mut out = vec![];
    for i in 0..n {
        for x in [0u64, u64::MAX] {
            for z in [0u64, u64::MAX] {
                for &y in ys {
                    let mut w = vec![x; n];
                    w[i] = y;
                    for l in w.iter_mut().skip(i + 1) {
                        *l = z;
                    }
                    w[n - 1] &= m;
                    out.push(w);
                }
            }
        }
    }
    finish(out)
}

/// P(B): {2^k + d : 0 <= k <= bits, d in {-1,0,1}} ∩ [0, 2^bits) ∪ {0, 2^bits - 1}.
pub fn pow2_nbhd(bits: usize) -> Vec<Limbs> {
    let m = pow2(bits);
    let mut out = vec![];
    let mut push = |v: BigUint| {
        if v < m {
            out.push(to_limbs(&v, bits));
        }
    };
    push(BigUint::zero());
    for k in 0..=bits {
        let p = pow2(k);
        push(&p - 1u32);
        push(p.clone());
        push(&p + 1u32);
    }
    finish(out)
}

/// G(K): K structureless words k * 0x9E3779B97F4A7C15 mod 2^64 (k = 1..=K). A fixed, explicitly
/// enumerated alphabet (not drawn at run time) used where a rare path needs operands without
/// any special bit structure (e.g. exact multiples whose reciprocal estimate is one too low).
pub fn golden(k: usize) -> Vec<u64> {
    (1..=k as u64).map(|i| i.wrapping_mul(0x9E37_79B9_7F4A_7C15)).collect()
}

/// B64: one-limb boundary alphabet.
pub fn b64() -> Vec<u64> {
    let mut v = vec![0u64, u64::MAX, u64::MAX - 1, 0xaaaa_aaaa_aaaa_aaaa, 0x5555_5555_5555_5555];
    for k in 0..64 {
        for d in [-2i64, -1, 0, 1, 2] {
            v.push((1u64 << k).wrapping_add(d as u64));
        }
    }
    v.sort();
    v.dedup();
    v
}

/// The standard wide universe for a width: L(B;alphabet) when it fits the cap, otherwise
/// L(B;A3) if that fits, always united with R(B) (and P(B) when `with_p`).
pub fn wide(bits: usize, alphabet: &[u64], with_p: bool, extra: &[u64]) -> (Vec<Limbs>, String) {
    let mut al = alphabet.to_vec();
    al.extend_from_slice(extra);
    al.sort();
    al.dedup();
    let (mut v, mut desc) = if let Some(v) = limb_product(bits, &al) {
        (v, format!("L({bits};|A|={})", al.len()))
    } else if let Some(v) = limb_product(bits, alphabet) {
        (v, format!("L({bits};|A|={})", alphabet.len()))
    } else if let Some(v) = limb_product(bits, A3) {
        (v, format!("L({bits};A3)"))
    } else {
        (vec![], String::new())
    };
    if nlimbs(bits) > 1 {
        v.extend(runs(bits, RUN_YS));
        desc.push_str("+R");
    }
    if with_p {
        v.extend(pow2_nbhd(bits));
        desc.push_str("+P");
    }
    (finish(v), desc)
}

/// The richest standard universe of a width whose size is at most `budget`. Candidates, richest
/// first: L(B;A8)+R+P, L(B;A5)+R+P, L(B;A4)+R+P, L(B;A3)+R+P, R+P, R(few ys)+P', P', where P' keeps
/// only the exponents k around multiples of 64, BITS/2 and BITS. The choice depends only on
/// (bits, budget): it is a deterministic, completely enumerated set.
pub fn pick(bits: usize, budget: usize, extra: &[u64]) -> (Vec<Limbs>, String) {
    if bits <= 20 && (1usize << bits) <= budget {
        return (small_all(bits), format!("S({bits})"));
    }
    for al in [A8, A5, A4, A3] {
        if let Some(v) = limb_product(bits, al) {
            if v.len() <= budget {
                let (v, d) = wide(bits, al, true, extra);
                if v.len() <= budget {
                    return (v, d);
                }
                let (v, d) = wide(bits, al, true, &[]);
                if v.len() <= budget {
                    return (v, d);
                }
            }
        }
    }
    let mut v = runs(bits, RUN_YS);
    v.extend(pow2_nbhd(bits));
    let v = finish(v);
    if v.len() <= budget {
        return (v, format!("R({bits})+P"));
    }
    let mut v = runs(bits, &[0, 1, 1 << 63, u64::MAX]);
    v.extend(pow2_sparse(bits));
    let v = finish(v);
    if v.len() <= budget {
        return (v, format!("R({bits};4 ys)+P'"));
    }
    (pow2_sparse(bits), format!("P'({bits})"))
}

/// P'(B): 2^k + d for k within 1 of a multiple of 64, of BITS/2, or of BITS, and k <= 2.
pub fn pow2_sparse(bits: usize) -> Vec<Limbs> {
    let m = pow2(bits);
    let mut out = vec![to_limbs(&BigUint::zero(), bits)];
    for k in 0..=bits {
        let near = |x: usize| k + 1 >= x && k <= x + 1;
        if k <= 2 || near(bits) || near(bits / 2) || (0..=bits / 64).any(|j| near(64 * j)) {
            let p = pow2(k);
            for v in [&p - 1u32, p.clone(), &p + 1u32] {
                if v < m {
                    out.push(to_limbs(&v, bits));
                }
            }
        }
    }
    finish(out)
}

/// Operands RELATED to `a` (rather than extreme in themselves): a, !a, a +- 1, -a, -a +- 1, a/2, 2a, a with its
/// limbs reversed, a xor (low limb pattern), 2^B - 1 - a + 2. Used for pair universes (a, related(a)).
pub fn related(bits: usize, a: &[u64]) -> Vec<Limbs> {
    let m = pow2(bits);
    if bits == 0 {
        return vec![vec![]];
    }
    let v = big(a);
    let mx = &m - 1u32;
    let mut out: Vec<BigUint> = vec![v.clone(), &mx - &v, (&v + 1u32) % &m, (&v + &mx) % &m, (&m - &v) % &m, (&m - &v + 1u32) % &m, (&m + &m - &v - 1u32) % &m, &v >> 1, (&v << 1) % &m, (&mx - &v + 2u32) % &m];
    let mut rev: Vec<u64> = a.to_vec();
    rev.reverse();
    if let Some(l) = rev.last_mut() {
        *l &= mask(bits);
    }
    out.push(big(&rev));
    out.push(&v ^ (BigUint::from(0x0101_0101_0101_0101u64) % &m));
    let mut r: Vec<Limbs> = out.into_iter().map(|x| to_limbs(&x, bits)).collect();
    r.sort();
    r.dedup();
    r
}

pub fn max_limbs(bits: usize) -> Limbs {
    let n = nlimbs(bits);
    let mut v = vec![u64::MAX; n];
    if n > 0 {
        v[n - 1] = mask(bits);
    }
    v
}

/// Exact multiples with structured limbs: for every divisor d of `ds` (d < 2^64) and every assignment of the limbs
/// above the lowest one from {0, 1, g1, g2} (zero limbs in every position), the lowest limb is SOLVED so that d
/// divides n exactly. Returns (n, d) together with the neighbours (n+1, d) and (n-1, d).
pub fn exact_multiples(bits: usize, ds: &[u64]) -> Vec<(Limbs, Limbs)> {
    let nl = nlimbs(bits);
    let m = pow2(bits);
    let mut out = vec![];
    if nl < 2 {
        return out;
    }
    let g = golden(2);
    let al = [0u64, 1, g[0], g[1]];
    let free = (nl - 1).min(5);
    let combos = 4usize.pow(free as u32);
    for &d in ds {
        if d == 0 {
            continue;
        }
        let bd = BigUint::from(d);
        let dl = to_limbs_n(&bd, nl);
        for c in 0..combos {
            let mut l = vec![0u64; nl];
            let mut cc = c;
            for i in 0..free {
                // the free limbs sit at the top, so that long widths keep zero limbs in the middle
                l[nl - 1 - i] = al[cc % 4];
                cc /= 4;
            }
            l[nl - 1] &= mask(bits);
            let rest = big(&l);
            let r = &rest % &bd;
            let low = if r == BigUint::from(0u32) { BigUint::from(0u32) } else { &bd - r };
            let n = rest + low;
            for delta in [0i32, 1, -1] {
                let x = match delta {
                    0 => n.clone(),
                    1 => &n + 1u32,
                    _ => {
                        if n == BigUint::from(0u32) {
                            continue;
                        }
                        &n - 1u32
                    }
                };
                if x < m {
                    out.push((to_limbs(&x, bits), dl.clone()));
                }
            }
        }
    }
    out.sort();
    out.dedup();
    out
}
/// H36: limbs whose two 32-bit halves are drawn from {0, 1, 2, 2^31, 2^32-2, 2^32-1} (every combination): the carry
/// structure of a 64 x 64 multiplication done on half words.
pub fn h36() -> Vec<u64> {
    let h = [0u64, 1, 2, 1 << 31, (1 << 32) - 2, (1 << 32) - 1];
    let mut v = vec![];
    for hi in h {
        for lo in h {
            v.push((hi << 32) | lo);
        }
    }
    v.sort();
    v.dedup();
    v
}
/// n = d * 2^k + delta for every k that is a multiple of 32 (a remainder of d-1 followed by all-ones half limbs when delta = -1)
pub fn shifted_multiples(bits: usize, ds: &[u64]) -> Vec<(Limbs, Limbs)> {
    let m = pow2(bits);
    let mut out = vec![];
    for &d in ds {
        let bd = BigUint::from(d);
        if d == 0 || bd >= m {
            continue;
        }
        let dl = to_limbs(&bd, bits);
        let mut k = 0usize;
        while k < bits {
            let base = &bd << k;
            for x in [&base - 1u32, base.clone(), &base + 1u32, (&base << 1usize) - 1u32, &base * 3u32 - 1u32] {
                if x < m {
                    out.push((to_limbs(&x, bits), dl.clone()));
                }
            }
            k += 32;
        }
    }
    out.sort();
    out.dedup();
    out
}
/// Ordinary-looking one-limb divisors: small odd primes, an odd divisor of 2^64-1, products with powers of two, a 20-bit and a 64-bit prime-like constant.
pub const ORDINARY_DIVISORS: &[u64] = &[3, 7, 10, 11, 13, 56, 641, 1_000_003, 1_000_003 << 5, 3_037_000_499, 4_000_000_000, 0x8000_0001, 0xffff_fffe, 0xffff_ffff, 0x1_0000_0001, 4_294_967_291, 10_000_000_000_000_000_000, 0x9E37_79B9_7F4A_7C15, 0x0101_0101_0101_0101, 7 << 40];

/// `pick`, but never larger than `budget`: when even P'(B) is too large it is thinned evenly (0 and MAX are kept).
pub fn pick_capped(bits: usize, budget: usize, extra: &[u64]) -> (Vec<Limbs>, String) {
    let (v, d) = pick(bits, budget, extra);
    if v.len() <= budget || budget < 4 {
        return (v, d);
    }
    let step = (v.len() + budget - 3) / (budget - 2);
    let mut out: Vec<Limbs> = v.iter().step_by(step).cloned().collect();
    out.push(v[v.len() - 1].clone());
    out.push(max_limbs(bits));
    out.push(vec![0; nlimbs(bits)]);
    out.sort();
    out.dedup();
    let n = out.len();
    (out, format!("{d} thinned to {n}"))
}
