// Group `fmt`: C09 (radix conversion, parsing, formatting).

use num_bigint::BigUint;
use num_traits::Zero;
use ruint::Uint;
use std::fmt;
use std::str::FromStr;
use vharness::*;

// ---------------------------------------------------------------- format spec grid

macro_rules! spec_table {
    ($($s:literal),* $(,)?) => {
        const SPECS: &[&str] = &[$($s),*];
        /// Format `x` with spec number `spec` and trait number `tr`
        /// (0 Display, 1 Debug, 2 LowerHex, 3 UpperHex, 4 Octal, 5 Binary).
        fn fmt_with<T: fmt::Display + fmt::Debug + fmt::LowerHex + fmt::UpperHex + fmt::Octal + fmt::Binary>(x: &T, spec: usize, tr: usize) -> String {
            let mut i = 0usize;
            $(
                if spec == i {
                    return match tr {
                        0 => format!(concat!("{:", $s, "}"), x),
                        1 => format!(concat!("{:", $s, "?}"), x),
                        2 => format!(concat!("{:", $s, "x}"), x),
                        3 => format!(concat!("{:", $s, "X}"), x),
                        4 => format!(concat!("{:", $s, "o}"), x),
                        5 => format!(concat!("{:", $s, "b}"), x),
                        _ => panic!("harness: bad trait code"),
                    };
                }
                i += 1;
            )*
            let _ = i;
            panic!("harness: bad spec index")
        }
    };
}
// order of a spec: [[fill]align][sign]['#']['0'][width]['.' precision]
spec_table!(
    "", "#", "0", "1", "01", "#1", "5", "05", "#5", "#05", "<5", "^5", ">5", "-<5", "0<7", "70", "070", "#070", "<70", "^70", ">70", "*<70", "*^71",
    "*>70", "*^#70", "#<70", "x^#9", "+", "+5", "+070", "+#070", "*>+9", "300", "0300", "#0300", "^#300", ".3", "10.3", "#010.2", "é^11",
    // explicit alignment together with the zero flag (the flag wins over fill and alignment for integers)
    "<08", "^08", ">08", "<070", "^#070", "*<09", "*^+#011", "<0300", "-^012", ">+#09", "^071",
);
const TRAITS: [&str; 6] = ["Display", "Debug", "LowerHex", "UpperHex", "Octal", "Binary"];

/// Reference integer: formats through `Formatter::pad_integral` (the routine std's primitive
/// integers use) over digit strings produced by BigUint.
struct RefInt {
    dec: String,
    hex: String,
    oct: String,
    bin: String,
}
impl RefInt {
    fn new(v: &BigUint) -> Self {
        RefInt { dec: v.to_str_radix(10), hex: v.to_str_radix(16), oct: v.to_str_radix(8), bin: v.to_str_radix(2) }
    }
}
impl fmt::Display for RefInt {
    fn fmt(&self, f: &mut fmt::Formatter<'_>) -> fmt::Result {
        f.pad_integral(true, "", &self.dec)
    }
}
impl fmt::Debug for RefInt {
    fn fmt(&self, f: &mut fmt::Formatter<'_>) -> fmt::Result {
        f.pad_integral(true, "", &self.dec)
    }
}
impl fmt::LowerHex for RefInt {
    fn fmt(&self, f: &mut fmt::Formatter<'_>) -> fmt::Result {
        f.pad_integral(true, "0x", &self.hex)
    }
}
impl fmt::UpperHex for RefInt {
    fn fmt(&self, f: &mut fmt::Formatter<'_>) -> fmt::Result {
        f.pad_integral(true, "0x", &self.hex.to_uppercase())
    }
}
impl fmt::Octal for RefInt {
    fn fmt(&self, f: &mut fmt::Formatter<'_>) -> fmt::Result {
        f.pad_integral(true, "0o", &self.oct)
    }
}
impl fmt::Binary for RefInt {
    fn fmt(&self, f: &mut fmt::Formatter<'_>) -> fmt::Result {
        f.pad_integral(true, "0b", &self.bin)
    }
}

define_ops! {
    to_base_le = |a: U, b: W| a.to_base_le(b).collect::<Vec<u64>>();
    to_base_be = |a: U, b: W| a.to_base_be(b).collect::<Vec<u64>>();
    // the digit iterators driven through provided Iterator methods instead of collect()
    to_base_iter = |a: U, b: W, k: N| ((a.to_base_le(b).count(), a.to_base_le(b).last(), a.to_base_le(b).nth(k)), (a.to_base_be(b).count(), a.to_base_be(b).last(), a.to_base_be(b).nth(k)), (a.to_base_le(b).skip(k).collect::<Vec<u64>>(), a.to_base_be(b).take(k).collect::<Vec<u64>>(), a.to_base_le(b).fold(0u64, |x, d| x.wrapping_mul(31).wrapping_add(d))), { let mut it = a.to_base_be(b); let first = it.next(); let rest: Vec<u64> = it.collect(); (first, rest) });
    from_base_le = |b: W, d: LS| Uint::<B, L>::from_base_le(b, d);
    from_base_be = |b: W, d: LS| Uint::<B, L>::from_base_be(b, d);
    // the digits through iterators whose size hint under-reports (filter: (0, Some(n)); NoHint: (0, None))
    from_base_le_nh = |b: W, d: LS| (Uint::<B, L>::from_base_le(b, NoHint(d.clone().into_iter())), Uint::<B, L>::from_base_le(b, d.clone().into_iter().filter(|_| true)), Uint::<B, L>::from_base_be(b, NoHint(d.clone().into_iter().rev())), Uint::<B, L>::from_base_be(b, d.into_iter().rev().filter(|_| true)));
    from_str_radix = |s: ST, r: W| Uint::<B, L>::from_str_radix(&s, r);
    from_str = |s: ST| Uint::<B, L>::from_str(&s);
    format = |a: U, spec: N, tr: N| fmt_with(&a, spec, tr);
    to_string = |a: U| a.to_string();
}

width_list!();

fn u(v: &BigUint, bits: usize) -> V {
    V::U(to_limbs(v, bits))
}
fn vu(l: &Limbs) -> V {
    V::U(l.clone())
}
fn digits_le(v: &BigUint, b: u64) -> Vec<u64> {
    let mut dg = vec![];
    let mut t = v.clone();
    while !t.is_zero() {
        dg.push((&t % b).iter_u64_digits().next().unwrap_or(0));
        t = &t / b;
    }
    dg
}
fn nl(d: &[u64]) -> V {
    V::U(d.to_vec())
}
fn e_invalid_digit(d: u64, b: u64) -> V {
    V::err(V::T(vec![V::s("InvalidDigit"), V::N(d as u128), V::N(b as u128)]))
}
fn e_overflow() -> V {
    V::err(V::s("Overflow"))
}

/// documented alphabets: Ok(Some(digit)), Ok(None) = ignored character, Err = invalid character
fn char_digit(c: char, radix: u64) -> Result<Option<u64>, ()> {
    if radix <= 36 {
        match c {
            '0'..='9' => Ok(Some(c as u64 - '0' as u64)),
            'a'..='z' => Ok(Some(c as u64 - 'a' as u64 + 10)),
            'A'..='Z' => Ok(Some(c as u64 - 'A' as u64 + 10)),
            '_' => Ok(None),
            _ => Err(()),
        }
    } else {
        match c {
            'A'..='Z' => Ok(Some(c as u64 - 'A' as u64)),
            'a'..='z' => Ok(Some(c as u64 - 'a' as u64 + 26)),
            '0'..='9' => Ok(Some(c as u64 - '0' as u64 + 52)),
            '+' | '-' => Ok(Some(62)),
            '/' | ',' | '_' => Ok(Some(63)),
            '=' | '\r' | '\n' => Ok(None),
            _ => Err(()),
        }
    }
}

/// Expectation for a digit sequence (most significant first) in base b: acceptable outcomes.
fn digits_expect(bits: usize, b: u64, be_digits: &[u64], badchar: Option<char>, empty_is_dont_care: bool) -> Expect {
    let m = pow2(bits);
    // valid prefix up to the first invalid digit
    let mut acc = BigUint::zero();
    let mut overflow = false;
    let mut bad_digit = None;
    for &d in be_digits {
        if d >= b {
            bad_digit = Some(d);
            break;
        }
        acc = acc * b + d;
        if acc >= m {
            overflow = true;
        }
    }
    if be_digits.is_empty() && badchar.is_none() && empty_is_dont_care {
        return dont_care();
    }
    if !overflow && bad_digit.is_none() && badchar.is_none() {
        return is(V::ok(u(&acc, bits))).nt(acc.bits() > 64);
    }
    let mut ok = vec![];
    if overflow {
        ok.push(e_overflow());
    }
    if let Some(d) = bad_digit {
        ok.push(e_invalid_digit(d, b));
    }
    if let Some(c) = badchar {
        ok.push(V::err(V::T(vec![V::s("InvalidChar"), V::S(c.to_string())])));
    }
    any_of(ok).nt(true)
}

fn str_expect(bits: usize, s: &str, radix: u64) -> Expect {
    if radix > 64 {
        return is(V::err(V::T(vec![V::s("InvalidRadix"), V::N(radix as u128)]))).nt(true);
    }
    let mut badchar = None;
    let mut ds = vec![];
    for c in s.chars() {
        match char_digit(c, radix) {
            Ok(Some(d)) => ds.push(d),
            Ok(None) => {}
            Err(()) => {
                badchar = Some(c);
                break;
            }
        }
    }
    if radix < 2 {
        let mut ok = vec![V::err(V::T(vec![V::s("InvalidBase"), V::N(radix as u128)]))];
        if let Some(c) = badchar {
            ok.push(V::err(V::T(vec![V::s("InvalidChar"), V::S(c.to_string())])));
        }
        return any_of(ok).nt(true);
    }
    digits_expect(bits, radix, &ds, badchar, true)
}

fn model(bits: usize, op: Op, args: &[V]) -> Expect {
    use Op::*;
    match op {
        to_base_le | to_base_be => {
            let a = big(args[0].limbs());
            let b = args[1].as_n() as u64;
            if b < 2 {
                // the property quantifies over bases in [2, 2^64); the digit iterators for smaller bases are outside it
                return dont_care();
            }
            let mut d = digits_le(&a, b);
            if op == to_base_be {
                d.reverse();
            }
            if a.is_zero() {
                return any_of(vec![nl(&[]), nl(&[0])]);
            }
            is(nl(&d)).nt(d.len() > 1)
        }
        to_base_iter => {
            let a = big(args[0].limbs());
            let b = args[1].as_n() as u64;
            let k = args[2].as_n() as usize;
            if b < 2 {
                // the property quantifies over bases in [2, 2^64); the digit iterators for smaller bases are outside it
                return dont_care();
            }
            if a.is_zero() {
                // zero may be rendered as no digit or as one zero digit (see to_base_le)
                return dont_care();
            }
            let le = digits_le(&a, b);
            let be: Vec<u64> = le.iter().rev().copied().collect();
            let o = |x: Option<&u64>| x.map_or(V::None, |d| V::some(V::N(*d as u128)));
            is(V::T(vec![
                V::T(vec![V::n(le.len()), o(le.last()), o(le.get(k))]),
                V::T(vec![V::n(be.len()), o(be.last()), o(be.get(k))]),
                V::T(vec![nl(&le[k.min(le.len())..]), nl(&be[..k.min(be.len())]), V::N(le.iter().fold(0u64, |x, d| x.wrapping_mul(31).wrapping_add(*d)) as u128)]),
                V::T(vec![o(be.first()), nl(&be[1..])]),
            ]))
            .nt(le.len() > 1)
        }
        from_base_le_nh => {
            // all four routes read the same little-endian digit list: the outcome of the plain from_base_le, four times
            let e = model(bits, from_base_le, args);
            let d = vharness::runner::describe_expect(&e);
            return pred(&format!("four iterator routes, each as from_base_le on the same digits: {d}"), move |g| matches!(g, V::T(t) if t.len() == 4 && t.iter().all(|x| vharness::runner::accepts(&e, x)))).nt(true);
        }
        from_base_le | from_base_be => {
            let b = args[0].as_n() as u64;
            let d: Vec<u64> = <Vec<u64> as FromV<0, 0>>::from_v(&args[1]);
            if b < 2 {
                return is(V::err(V::T(vec![V::s("InvalidBase"), V::N(b as u128)]))).nt(true);
            }
            if op == from_base_be {
                return digits_expect(bits, b, &d, None, true);
            }
            // little endian: digits are consumed least significant first. Acceptable errors: the first
            // invalid digit in iteration order, or Overflow if the value of the digits before it is >= 2^BITS.
            let m = pow2(bits);
            let mut acc = BigUint::zero();
            let mut pw = BigUint::from(1u32);
            let mut bad = None;
            for &x in &d {
                if x >= b {
                    bad = Some(x);
                    break;
                }
                acc += &pw * x;
                pw *= b;
            }
            if d.is_empty() {
                return dont_care();
            }
            let overflow = acc >= m;
            if !overflow && bad.is_none() {
                return is(V::ok(u(&acc, bits))).nt(acc.bits() > 64 || d.len() > 1);
            }
            let mut ok = vec![];
            if overflow {
                ok.push(e_overflow());
            }
            if let Some(x) = bad {
                ok.push(e_invalid_digit(x, b));
            }
            any_of(ok).nt(true)
        }
        from_str_radix => str_expect(bits, args[0].as_s(), args[1].as_n() as u64),
        from_str => {
            let s = args[0].as_s();
            let (rest, radix) = if s.is_char_boundary(2) && s.len() >= 2 {
                match &s[..2] {
                    "0x" | "0X" => (&s[2..], 16),
                    "0o" | "0O" => (&s[2..], 8),
                    "0b" | "0B" => (&s[2..], 2),
                    _ => (s, 10),
                }
            } else {
                (s, 10)
            };
            str_expect(bits, rest, radix)
        }
        format => {
            let a = big(args[0].limbs());
            let (spec, tr) = (args[1].as_n() as usize, args[2].as_n() as usize);
            let r = RefInt::new(&a);
            let e = fmt_with(&r, spec, tr);
            if a.bits() <= 128 {
                // the property's definition: identical to the primitive integer's formatting
                let p: u128 = a.iter_u64_digits().enumerate().map(|(i, d)| (d as u128) << (64 * i)).sum();
                let e2 = fmt_with(&p, spec, tr);
                assert_eq!(e, e2, "harness: reference formatter disagrees with u128 (spec {:?} trait {})", SPECS[spec], TRAITS[tr]);
            }
            is(V::S(e)).nt(a.bits() > 60)
        }
        to_string => is(V::S(big(args[0].limbs()).to_str_radix(10))).nt(true),
    }
}

group_glue!();

const W_Q: &[usize] = &[0, 1, 2, 3, 4, 5, 6, 7, 8, 9, 10, 12, 16, 60, 63, 64, 65, 72, 127, 128, 129, 192, 200, 256, 257];
const W_T: &[usize] = &[0, 1, 2, 3, 4, 5, 6, 7, 8, 9, 10, 11, 12, 13, 16, 59, 60, 61, 63, 64, 65, 66, 72, 120, 126, 127, 128, 129, 189, 192, 193, 200, 255, 256, 257, 320, 512, 1024];

fn fmt_values(bits: usize, budget: usize) -> Vec<Limbs> {
    let m = pow2(bits);
    let mut vals: Vec<BigUint> = pick(bits, budget, &[]).0.iter().map(|x| big(x)).collect();
    // chunk boundaries of the four spigot bases: M^k + d, c * M^k (zero middle chunks)
    for base in [BigUint::from(1u64 << 63), BigUint::from(10_000_000_000_000_000_000u64), BigUint::from(1u64 << 60)] {
        let mut p = BigUint::from(1u32);
        loop {
            for d in [-1i32, 0, 1] {
                let v = if d < 0 { &p - 1u32 } else { &p + d as u32 };
                if v < m {
                    vals.push(v);
                }
            }
            for c in [2u32, 7, 9, 10, 15, 16] {
                let v = &p * c;
                if v < m {
                    vals.push(v.clone());
                }
                let v = &p * &p * c + 1u32;
                if v < m {
                    vals.push(v);
                }
            }
            p = &p * &base;
            if p >= m {
                break;
            }
        }
    }
    vals.sort();
    vals.dedup();
    vals.iter().map(|v| to_limbs(v, bits)).collect()
}

fn c09(r: &Runner) {
    r.set_rule("digits: round trips of every value of the width's universe in every base 2..2^B+2 (B <= 8) resp. a fixed list of 20 bases incl. 2^32+-1, 10^19, 2^63, 2^64-1, 2^B-1 and 0, 1 (invalid); all digit strings up to length ceil(B/log2 b)+2 over {0,1,b-1,b,b+1} for B <= 8; overflow-by-one strings at every width. formatting: 6 traits x 51 format specs x values of S(B) (B <= 10), P/R(B) and the chunk boundaries M^k + d of the four spigot bases; reference = the same spec applied to u128 (when it fits) and to a wrapper over Formatter::pad_integral. parsing: all strings of length <= 2 over an 87-character set (both alphabets, separators, CR/LF, space, multi-byte characters) plus length-3 strings, x every radix 0..=66, plus FromStr prefix sniffing. non-trivial = multi-digit / multi-chunk values or error outcomes");
    let ws = if SWEEP { WIDTHS } else if r.is_thorough() { W_T } else { W_Q };
    // ---- digit conversion
    for &bits in ws {
        let m = pow2(bits);
        let mut bases: Vec<u64> = if bits <= 8 {
            (0..(1u64 << bits) + 3).collect()
        } else {
            vec![0, 1, 2, 3, 7, 8, 10, 16, 36, 64, 255, 256, (1 << 32) - 1, 1 << 32, (1 << 32) + 1, 10_000_000_000_000_000_000, 1 << 63, (1 << 63) + 1, u64::MAX - 1, u64::MAX]
        };
        if bits > 8 && bits < 64 {
            bases.push((1u64 << bits) - 1);
            bases.push(1u64 << bits);
            bases.push((1u64 << bits) + 1);
        }
        bases.sort();
        bases.dedup();
        let (vals, d) = pick(bits, if SWEEP { 150 } else if r.is_thorough() { 20_000 } else { 700 }, &salt(r.seed));
        let nb = bases.len();
        r.universe(&format!("{d} x {nb} bases: digits and round trips"), bits, vals.len(), |i, l| {
            let a = vu(&vals[i]);
            let v = big(&vals[i]);
            for &b in &bases {
                l.states(1);
                exec(l, bits, Op::to_base_le, &[a.clone(), V::N(b as u128)]);
                exec(l, bits, Op::to_base_be, &[a.clone(), V::N(b as u128)]);
                for k in [0usize, 1, 2, 5] {
                    exec(l, bits, Op::to_base_iter, &[a.clone(), V::N(b as u128), V::n(k)]);
                }
                if b >= 2 {
                    let dg = digits_le(&v, b);
                    let be: Vec<u64> = dg.iter().rev().copied().collect();
                    exec(l, bits, Op::from_base_le, &[V::N(b as u128), nl(&dg)]);
                    exec(l, bits, Op::from_base_be, &[V::N(b as u128), nl(&be)]);
                    exec(l, bits, Op::from_base_le_nh, &[V::N(b as u128), nl(&dg)]);
                    // with redundant zero digits at the significant end
                    let mut z = dg.clone();
                    z.extend([0, 0]);
                    exec(l, bits, Op::from_base_le, &[V::N(b as u128), nl(&z)]);
                    let mut z = vec![0, 0];
                    z.extend(&be);
                    exec(l, bits, Op::from_base_be, &[V::N(b as u128), nl(&z)]);
                }
            }
        });
        // bases of EVERY bit length: 2^k - 1, 2^k + 1, 3 * 2^(k-1) for k = 2..=63, every power of ten, and some
        // ordinary-looking ones; on a thinner value set
        if bits > 8 {
            let mut xb: Vec<u64> = vec![6_000_000_000, 1_000_003, 0x9E37_79B9_7F4A_7C15, 0x0101_0101_0101_0101, 12345678901234567];
            for k in 2..=63u32 {
                xb.extend([(1u64 << k) - 1, (1u64 << k) + 1, 3u64 << (k - 1)]);
            }
            let mut p10 = 10u64;
            for _ in 1..=19 {
                xb.push(p10);
                p10 = p10.wrapping_mul(10);
            }
            xb.retain(|b| *b >= 2);
            xb.sort();
            xb.dedup();
            let (xv, xd) = pick(bits, if SWEEP { 24 } else if r.is_thorough() { 1200 } else { 120 }, &[0x9E37_79B9_7F4A_7C15]);
            r.universe(&format!("{xd} x {} bases of every bit length: digits and round trips", xb.len()), bits, xv.len(), |i, l| {
                let a = vu(&xv[i]);
                let v = big(&xv[i]);
                for &b in &xb {
                    l.states(1);
                    exec(l, bits, Op::to_base_le, &[a.clone(), V::N(b as u128)]);
                    exec(l, bits, Op::to_base_be, &[a.clone(), V::N(b as u128)]);
                    let dg = digits_le(&v, b);
                    let be: Vec<u64> = dg.iter().rev().copied().collect();
                    exec(l, bits, Op::from_base_le, &[V::N(b as u128), nl(&dg)]);
                    exec(l, bits, Op::from_base_be, &[V::N(b as u128), nl(&be)]);
                }
            });
        }
        // limbs equal to (or next to) the largest power of the base that fits a word, in every limb position: the value at
        // which a chunked spigot (divide by base^k, peel k digits off natively) refills
        if bits > 64 {
            let cb: Vec<u64> = vec![3, 5, 6, 7, 10, 11, 36, 100, 255, 1000, 10_000, 65_537, 1_000_003, 6_000_000_000, (1 << 32) - 1, (1 << 32) + 1];
            let nlb = nlimbs(bits).min(4);
            let mut cases: Vec<(u64, Limbs)> = vec![];
            for &b in &cb {
                let mut c = b;
                while let Some(n) = c.checked_mul(b) {
                    c = n;
                }
                let al = [0u64, 1, c - 1, c, c + 1, c / b, u64::MAX];
                let mut idx = vec![0usize; nlb];
                loop {
                    let mut lim = vec![0u64; nlimbs(bits)];
                    for (k, &ix) in idx.iter().enumerate() {
                        lim[k] = al[ix];
                    }
                    let last = nlimbs(bits) - 1;
                    lim[last] &= mask(bits);
                    cases.push((b, lim));
                    let mut k = 0;
                    while k < nlb {
                        idx[k] += 1;
                        if idx[k] < al.len() {
                            break;
                        }
                        idx[k] = 0;
                        k += 1;
                    }
                    if k == nlb {
                        break;
                    }
                }
            }
            r.universe(&format!("limbs from {{0, 1, c-1, c, c+1, c/b, MAX}} with c = the largest power of the base in a word, {} bases, low {nlb} limbs: digits and round trips", cb.len()), bits, cases.len(), |i, l| {
                let (b, lim) = &cases[i];
                let a = vu(lim);
                let v = big(lim);
                l.states(1);
                exec(l, bits, Op::to_base_le, &[a.clone(), V::N(*b as u128)]);
                exec(l, bits, Op::to_base_be, &[a.clone(), V::N(*b as u128)]);
                exec(l, bits, Op::to_base_iter, &[a.clone(), V::N(*b as u128), V::n(1)]);
                let dg = digits_le(&v, *b);
                exec(l, bits, Op::from_base_le, &[V::N(*b as u128), nl(&dg)]);
            });
        }
        // overflow-by-one and invalid digits, per base
        r.universe(&format!("{nb} bases: overflow-by-one and invalid-digit strings"), bits, bases.len(), |i, l| {
            let b = bases[i];
            let bv = V::N(b as u128);
            if b < 2 {
                for dg in [vec![], vec![0u64], vec![1, 0], vec![5]] {
                    l.states(1);
                    exec(l, bits, Op::from_base_le, &[bv.clone(), nl(&dg)]);
                    exec(l, bits, Op::from_base_be, &[bv.clone(), nl(&dg)]);
                }
                return;
            }
            for ov in [m.clone(), &m + 1u32, &m - 1u32, &m * 2u32, &m * b, &m * b + 1u32, (&m >> 1) * b, &m + b] {
                let dg = digits_le(&ov, b);
                let be: Vec<u64> = dg.iter().rev().copied().collect();
                l.states(1);
                exec(l, bits, Op::from_base_le, &[bv.clone(), nl(&dg)]);
                exec(l, bits, Op::from_base_be, &[bv.clone(), nl(&be)]);
                let mut z = dg.clone();
                z.push(0);
                exec(l, bits, Op::from_base_le, &[bv.clone(), nl(&z)]);
                let mut z = vec![0];
                z.extend(&be);
                exec(l, bits, Op::from_base_be, &[bv.clone(), nl(&z)]);
                // an invalid digit after / before the overflow
                let mut z = dg.clone();
                z.push(b);
                exec(l, bits, Op::from_base_le, &[bv.clone(), nl(&z)]);
                let mut z = be.clone();
                z.push(b);
                exec(l, bits, Op::from_base_be, &[bv.clone(), nl(&z)]);
            }
            for dg in [vec![b], vec![0, b], vec![b, 0], vec![1, b.wrapping_add(1).max(b)], vec![u64::MAX], vec![0, 0, 0, b]] {
                l.states(1);
                exec(l, bits, Op::from_base_le, &[bv.clone(), nl(&dg)]);
                exec(l, bits, Op::from_base_be, &[bv.clone(), nl(&dg)]);
            }
        });
        if bits <= 8 {
            // all short digit strings over {0,1,b-1,b,b+1}
            r.universe(&format!("all digit strings over {{0,1,b-1,b,b+1}} for {nb} bases"), bits, bases.len(), |i, l| {
                let b = bases[i];
                if b < 2 {
                    return;
                }
                let mut al = vec![0u64, 1, b - 1, b, b + 1];
                al.sort();
                al.dedup();
                let maxlen = ((bits as f64 / (b as f64).log2()).ceil() as usize + 2).min(if r.is_thorough() { 7 } else { 6 });
                let mut cur: Vec<Vec<u64>> = vec![vec![]];
                for _ in 0..maxlen {
                    let mut nx = vec![];
                    for s in &cur {
                        for &d in &al {
                            let mut w = s.clone();
                            w.push(d);
                            nx.push(w);
                        }
                    }
                    for s in &nx {
                        l.states(1);
                        exec(l, bits, Op::from_base_le, &[V::N(b as u128), nl(s)]);
                        exec(l, bits, Op::from_base_be, &[V::N(b as u128), nl(s)]);
                    }
                    cur = nx;
                }
            });
        }
    }
    // ---- formatting
    for &bits in ws {
        let vals = if bits <= (if SWEEP { 7 } else { 10 }) { small_all(bits) } else { fmt_values(bits, if SWEEP { 60 } else if r.is_thorough() { 10_000 } else { 500 }) };
        r.universe(&format!("{} values x {} specs x 6 traits", vals.len(), SPECS.len()), bits, vals.len(), |i, l| {
            let a = vu(&vals[i]);
            l.states(1);
            exec(l, bits, Op::to_string, &[a.clone()]);
            for spec in 0..SPECS.len() {
                for tr in 0..6 {
                    exec(l, bits, Op::format, &[a.clone(), V::n(spec), V::n(tr)]);
                }
            }
        });
    }
    // ---- formatting at wide widths: EVERY 2^k - 1, 2^k and EVERY 10^e - 1, 10^e, 10^e + 1 up to the width (the number of
    // digits is a step function of the bit length: a digit buffer sized from the bit length by an approximation of
    // log10(2) is one short only in the window between a power of ten and the next power of two)
    if !SWEEP {
        for bits in [1024usize, 4096] {
            let m = pow2(bits);
            let mut vals: Vec<BigUint> = vec![];
            for k in 0..=bits {
                vals.push(pow2(k) - 1u32);
                if k < bits {
                    vals.push(pow2(k));
                }
            }
            let mut p = BigUint::from(1u32);
            while p < m {
                vals.extend([&p - 1u32, p.clone(), &p + 1u32]);
                p *= 10u32;
            }
            vals.retain(|v| v < &m);
            vals.sort();
            vals.dedup();
            let lv: Vec<Limbs> = vals.iter().map(|v| to_limbs(v, bits)).collect();
            r.universe(&format!("every 2^k - 1, 2^k, 10^e - 1, 10^e, 10^e + 1 below 2^{bits} ({} values) x 6 traits x 3 specs", lv.len()), bits, lv.len(), |i, l| {
                let a = vu(&lv[i]);
                l.states(1);
                exec(l, bits, Op::to_string, &[a.clone()]);
                for spec in [0usize, 1, 5] {
                    for tr in 0..6 {
                        exec(l, bits, Op::format, &[a.clone(), V::n(spec), V::n(tr)]);
                    }
                }
            });
        }
    }
    // ---- parsing
    let chars: Vec<char> = "0123456789abcdefghijklmnopqrstuvwxyzABCDEFGHIJKLMNOPQRSTUVWXYZ_+-/,=\r\n .xé€😀\u{131}\u{141}\u{161}\u{15f}\u{10d}\u{13d}\u{661}\u{12b}\u{12f}\u{1f431}\u{ff11}\u{212a}\u{212b}\u{17f}\u{130}\u{b5}\u{1e9e}\u{ff21}\u{ff41}\u{2160}\u{2170}\u{660}\u{966}\u{b2}\u{2460}\u{1d7ce}\u{3c3}\u{3a3}".chars().collect();
    let mut strs: Vec<String> = vec![String::new()];
    for &a in &chars {
        strs.push(a.to_string());
        for &b in &chars {
            strs.push([a, b].iter().collect());
        }
    }
    for &a in &['0', '1', 'z', 'Z', '_', 'g', '9', 'é', '+', '\u{131}'] {
        for &b in &chars {
            for &c in &['0', '1', 'f', 'z', '_', '/', 'é', '€', '\u{161}', '\u{15f}'] {
                strs.push([a, b, c].iter().collect());
            }
        }
    }
    strs.sort();
    strs.dedup();
    let pw: &[usize] = if SWEEP { &[] } else if r.is_thorough() { &[0, 1, 2, 3, 4, 5, 6, 7, 8, 9, 10, 12, 16, 63, 64, 65, 128, 129, 256] } else { &[0, 1, 4, 7, 8, 12, 16, 64, 65, 256] };
    for &bits in pw {
        r.universe(&format!("{} strings of length <= 3 x radix 0..=66", strs.len()), bits, strs.len(), |i, l| {
            let s = V::S(strs[i].clone());
            for radix in (0..=66u64).chain([255, 256, 266, (1 << 8) + 16, (1 << 16) + 10, (1 << 32) + 2, (1 << 32) + 10, (1 << 32) + 16, (1 << 32) + 36, (1 << 32) + 64, (1 << 33) + 10, (1 << 63) + 10, u64::MAX - 5, u64::MAX]) {
                l.states(1);
                exec(l, bits, Op::from_str_radix, &[s.clone(), V::N(radix as u128)]);
            }
            exec(l, bits, Op::from_str, &[s.clone()]);
            for pre in ["0x", "0X", "0o", "0O", "0b", "0B", "0_", "00"] {
                exec(l, bits, Op::from_str, &[V::S(format!("{pre}{}", strs[i]))]);
            }
        });
    }
    if r.is_thorough() && !SWEEP {
        // ALL strings of length 3 over the character set, every radix
        let n = chars.len();
        for bits in [8usize, 64, 65, 256] {
            r.universe(&format!("all {} strings of length 3 over the {n}-character set x radix 0..=66", n * n * n), bits, n * n, |i, l| {
                for &c in &chars {
                    let st: String = [chars[i / n], chars[i % n], c].iter().collect();
                    let s = V::S(st);
                    for radix in 0..=66u64 {
                        l.states(1);
                        exec(l, bits, Op::from_str_radix, &[s.clone(), V::N(radix as u128)]);
                    }
                    exec(l, bits, Op::from_str, &[s.clone()]);
                }
            });
        }
    }
    // round trips of formatted values and overflow-by-one strings in every radix
    for &bits in ws {
        let m = pow2(bits);
        let (vals, d) = pick(bits, if SWEEP { 40 } else if r.is_thorough() { 6000 } else { 300 }, &[]);
        let mut bv: Vec<BigUint> = vals.iter().map(|x| big(x)).collect();
        bv.extend([m.clone(), &m + 1u32, &m * 2u32, &m * 36u32, &m * 64u32 + 63u32]);
        r.universe(&format!("{d} + overflow-by-one values: text in every radix 2..=64 and prefixed forms"), bits, bv.len(), |i, l| {
            let v = &bv[i];
            l.states(1);
            for radix in 2..=36u32 {
                let s = v.to_str_radix(radix);
                exec(l, bits, Op::from_str_radix, &[V::S(s.clone()), V::N(radix as u128)]);
                if radix > 10 {
                    exec(l, bits, Op::from_str_radix, &[V::S(s.to_uppercase()), V::N(radix as u128)]);
                }
                // underscores are ignored
                let mut t = String::from("_");
                for (k, c) in s.chars().enumerate() {
                    t.push(c);
                    if k % 3 == 0 {
                        t.push('_');
                    }
                }
                exec(l, bits, Op::from_str_radix, &[V::S(t), V::N(radix as u128)]);
            }
            for radix in 37..=64u64 {
                // base-64 alphabet
                let al: Vec<char> = "ABCDEFGHIJKLMNOPQRSTUVWXYZabcdefghijklmnopqrstuvwxyz0123456789+/".chars().collect();
                let al2: Vec<char> = "ABCDEFGHIJKLMNOPQRSTUVWXYZabcdefghijklmnopqrstuvwxyz0123456789-_".chars().collect();
                let mut dg = digits_le(v, radix);
                dg.reverse();
                let s: String = dg.iter().map(|d| al[*d as usize]).collect();
                let s2: String = dg.iter().map(|d| al2[*d as usize]).collect();
                exec(l, bits, Op::from_str_radix, &[V::S(s.clone()), V::N(radix as u128)]);
                exec(l, bits, Op::from_str_radix, &[V::S(s2), V::N(radix as u128)]);
                exec(l, bits, Op::from_str_radix, &[V::S(format!("{s}=\r\n")), V::N(radix as u128)]);
            }
            for s in [v.to_str_radix(10), format!("0x{}", v.to_str_radix(16)), format!("0X{}", v.to_str_radix(16).to_uppercase()), format!("0o{}", v.to_str_radix(8)), format!("0b{}", v.to_str_radix(2)), format!("0B{}", v.to_str_radix(2)), format!("00{}", v.to_str_radix(10))] {
                exec(l, bits, Op::from_str, &[V::S(s)]);
            }
            // a prefix written twice (or followed by another prefix) is ONE prefix followed by digits that begin with 0 and a letter
            if i % 8 == 0 {
                const PF: [&str; 6] = ["0x", "0X", "0o", "0O", "0b", "0B"];
                for p in PF {
                    for q in PF {
                        for body in [String::new(), "1".to_string(), "10".to_string(), v.to_str_radix(2), v.to_str_radix(16)] {
                            exec(l, bits, Op::from_str, &[V::S(format!("{p}{q}{body}"))]);
                        }
                    }
                    exec(l, bits, Op::from_str, &[V::S(format!("{p}{p}{p}1"))]);
                    exec(l, bits, Op::from_str, &[V::S(format!("{p}_{p}1"))]);
                    exec(l, bits, Op::from_str, &[V::S(format!("0{p}1"))]);
                }
            }
        });
    }
    // single-character substitutions: every position of a full-width (zero-padded) and of a minimal text is replaced by
    // each of a set of characters that are digits in some radix only, signs, separators or junk
    for &bits in ws {
        if bits == 0 {
            continue;
        }
        let m = pow2(bits);
        let vals: Vec<BigUint> = vec![BigUint::from(0u32), &m - 1u32, (&m - 1u32) / 3u32, big(&golden(nlimbs(bits)).iter().enumerate().map(|(i, x)| if i == nlimbs(bits) - 1 { x & mask(bits) } else { *x }).collect::<Vec<u64>>()) >> 3usize];
        // incl. characters that Unicode case mapping or digit classification would turn into an ASCII letter / digit:
        // KELVIN SIGN (lower-cases to k), LONG S (upper-cases to S), fullwidth A / 1, ARABIC-INDIC and mathematical digits
        let subs: Vec<char> = "+-_ 0fFgGzZ/=.\u{e9}\u{212a}\u{17f}\u{ff21}\u{ff11}\u{661}\u{1d7cf}".chars().collect();
        let radices = [2u32, 8, 10, 16, 36];
        r.universe(&format!("single-character substitutions at every position of full-width and minimal texts ({} values x {} radices x {} characters)", vals.len(), radices.len(), subs.len()), bits, vals.len() * radices.len(), |i, l| {
            let v = &vals[i / radices.len()];
            let radix = radices[i % radices.len()];
            let minimal = v.to_str_radix(radix);
            let width = (&m - 1u32).to_str_radix(radix).len();
            let full = format!("{}{}", "0".repeat(width.saturating_sub(minimal.len())), minimal);
            for t in [&minimal, &full] {
                let cs: Vec<char> = t.chars().collect();
                for pos in 0..=cs.len() {
                    for &c in &subs {
                        l.states(1);
                        // replace the character at `pos` (or append at the end)
                        let mut w = cs.clone();
                        if pos < w.len() {
                            w[pos] = c;
                        } else {
                            w.push(c);
                        }
                        let st: String = w.iter().collect();
                        exec(l, bits, Op::from_str_radix, &[V::S(st.clone()), V::N(radix as u128)]);
                        if radix == 16 {
                            exec(l, bits, Op::from_str, &[V::S(format!("0x{st}"))]);
                        } else if radix == 10 {
                            exec(l, bits, Op::from_str, &[V::S(st)]);
                        }
                    }
                }
            }
        });
    }
    // long texts that denote small values: leading zeros / ignored characters up to and across every multiple of 64
    // characters (limits on the LENGTH of the input must count significant digits only)
    for &bits in ws {
        let nlm = nlimbs(bits);
        let mut js: Vec<usize> = (1..=(nlm + 2).min(6)).collect();
        js.extend([nlm, nlm + 1, nlm + 2, 2 * nlm + 1]);
        js.sort();
        js.dedup();
        let mut lens: Vec<usize> = vec![1, 2, 5000];
        for j in js {
            if j > 0 {
                lens.extend([64 * j - 1, 64 * j, 64 * j + 1]);
            }
        }
        let vals: Vec<BigUint> = vec![BigUint::from(0u32), BigUint::from(1u32), pow2(bits) - 1u32, pow2(bits)];
        r.universe(&format!("texts padded with zeros / underscores to {} lengths across every multiple of 64", lens.len()), bits, lens.len(), |i, l| {
            let n = lens[i];
            for v in &vals {
                for radix in [2u32, 10, 16, 36] {
                    let t = v.to_str_radix(radix);
                    for pad in ["0", "_", "0_"] {
                        l.states(1);
                        let mut st = pad.repeat(n / pad.len());
                        st.push_str(&t);
                        exec(l, bits, Op::from_str_radix, &[V::S(st.clone()), V::N(radix as u128)]);
                        // and with the padding inside / after the digits (underscores only)
                        if pad == "_" {
                            exec(l, bits, Op::from_str_radix, &[V::S(format!("{t}{}", pad.repeat(n))), V::N(radix as u128)]);
                        }
                        if radix == 10 {
                            exec(l, bits, Op::from_str, &[V::S(st)]);
                        } else if radix == 16 {
                            exec(l, bits, Op::from_str, &[V::S(format!("0x{st}"))]);
                        }
                    }
                }
                // base 64: 'A' is the zero digit
                let mut dg = digits_le(v, 64);
                dg.reverse();
                let al: Vec<char> = "ABCDEFGHIJKLMNOPQRSTUVWXYZabcdefghijklmnopqrstuvwxyz0123456789+/".chars().collect();
                let t: String = dg.iter().map(|d| al[*d as usize]).collect();
                exec(l, bits, Op::from_str_radix, &[V::S(format!("{}{t}", "A".repeat(n))), V::N(64)]);
            }
        });
    }
    r.extra("format_specs", serde_json::json!(SPECS));
    r.extra("format_traits", serde_json::json!(TRAITS));
}

fn main() {
    let (prop, tier, seed, replay_path) = args_env();
    if let Some(p) = replay_path {
        std::process::exit(replay(&p));
    }
    let r = Runner::new(if SWEEP { "mc_fmt_sweep" } else { "mc_fmt" }, &prop, &tier, seed);
    if SWEEP {
        r.assume("WIDTH SWEEP: the same checks instantiated at every width 0..=136 and within 2 of every limb boundary up to 1024 bits, on budgeted universes");
    }
    r.assume("error precedence is not part of the property: when a text/digit string has several defects any matching error is accepted, only Ok is wrong");
    r.assume("empty digit strings / empty text denote nothing: no claim; to_base of zero may yield no digits or a single 0");
    r.assume("Debug with the x?/X? flags is outside the property's 'width, fill, alignment and #'");
    r.assume("reference formatter: std's primitive u128 formatting where the value fits, otherwise Formatter::pad_integral over BigUint digit strings (cross-checked against u128 on every case that fits)");
    match prop.as_str() {
        "C09" => c09(&r),
        _ => {
            eprintln!("mc_fmt: unknown property '{prop}' (C09)");
            std::process::exit(2);
        }
    }
    std::process::exit(r.finish());
}
