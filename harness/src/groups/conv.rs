// Group `conv`: C07 (integer conversions), C08 (byte encodings), C18 (floating point).

use num_bigint::BigUint;
use num_traits::{One, Zero};
use ruint::{Uint, UintTryFrom, UintTryTo};
use vharness::*;

// type codes
const UT: [(&str, u32); 7] = [("bool", 1), ("u8", 8), ("u16", 16), ("u32", 32), ("u64", 64), ("u128", 128), ("usize", 64)];
const IT: [(&str, u32); 6] = [("i8", 8), ("i16", 16), ("i32", 32), ("i64", 64), ("i128", 128), ("isize", 64)];

macro_rules! u_ty {
    ($t:expr, $T:ident => $e:expr) => {
        match $t {
            0 => { type $T = bool; IntoV::into_v($e) }
            1 => { type $T = u8; IntoV::into_v($e) }
            2 => { type $T = u16; IntoV::into_v($e) }
            3 => { type $T = u32; IntoV::into_v($e) }
            4 => { type $T = u64; IntoV::into_v($e) }
            5 => { type $T = u128; IntoV::into_v($e) }
            6 => { type $T = usize; IntoV::into_v($e) }
            _ => panic!("harness: bad unsigned type code"),
        }
    };
}
macro_rules! i_ty {
    ($t:expr, $T:ident => $e:expr) => {
        match $t {
            0 => { type $T = i8; IntoV::into_v($e) }
            1 => { type $T = i16; IntoV::into_v($e) }
            2 => { type $T = i32; IntoV::into_v($e) }
            3 => { type $T = i64; IntoV::into_v($e) }
            4 => { type $T = i128; IntoV::into_v($e) }
            5 => { type $T = isize; IntoV::into_v($e) }
            _ => panic!("harness: bad signed type code"),
        }
    };
}

fn arr<const N: usize>(v: &[u8]) -> [u8; N] {
    let mut a = [0u8; N];
    a.copy_from_slice(v);
    a
}
fn arr64<const N: usize>(v: &[u64]) -> [u64; N] {
    let mut a = [0u64; N];
    a.copy_from_slice(v);
    a
}

define_ops! {
    // ---- C07: primitive -> Uint
    try_from_u = |t: N, v: W128| u_ty!(t, T => Uint::<B, L>::try_from(<T as FromU128>::fu(v)));
    from_u = |t: N, v: W128| u_ty!(t, T => Uint::<B, L>::from(<T as FromU128>::fu(v)));
    wrapping_from_u = |t: N, v: W128| u_ty!(t, T => Uint::<B, L>::wrapping_from(<T as FromU128>::fu(v)));
    saturating_from_u = |t: N, v: W128| u_ty!(t, T => Uint::<B, L>::saturating_from(<T as FromU128>::fu(v)));
    uint_try_from_u = |t: N, v: W128| u_ty!(t, T => <Uint<B, L> as UintTryFrom<T>>::uint_try_from(<T as FromU128>::fu(v)));
    try_from_i = |t: N, v: I| i_ty!(t, T => Uint::<B, L>::try_from(<T as FromI128>::fi(v)));
    from_i = |t: N, v: I| i_ty!(t, T => Uint::<B, L>::from(<T as FromI128>::fi(v)));
    wrapping_from_i = |t: N, v: I| i_ty!(t, T => Uint::<B, L>::wrapping_from(<T as FromI128>::fi(v)));
    saturating_from_i = |t: N, v: I| i_ty!(t, T => Uint::<B, L>::saturating_from(<T as FromI128>::fi(v)));
    // ---- C07: Uint -> primitive
    try_to_u = |a: U, t: N| u_ty!(t, T => <T as TryFrom<Uint<B, L>>>::try_from(a));
    try_to_u_ref = |a: U, t: N| u_ty!(t, T => <T as TryFrom<&Uint<B, L>>>::try_from(&a));
    to_u = |a: U, t: N| u_ty!(t, T => a.to::<T>());
    wrapping_to_u = |a: U, t: N| u_ty!(t, T => a.wrapping_to::<T>());
    saturating_to_u = |a: U, t: N| u_ty!(t, T => a.saturating_to::<T>());
    uint_try_to_u = |a: U, t: N| u_ty!(t, T => <Uint<B, L> as UintTryTo<T>>::uint_try_to(&a));
    try_to_i = |a: U, t: N| i_ty!(t, T => <T as TryFrom<Uint<B, L>>>::try_from(a));
    try_to_i_ref = |a: U, t: N| i_ty!(t, T => <T as TryFrom<&Uint<B, L>>>::try_from(&a));
    to_i = |a: U, t: N| i_ty!(t, T => a.to::<T>());
    wrapping_to_i = |a: U, t: N| i_ty!(t, T => a.wrapping_to::<T>());
    saturating_to_i = |a: U, t: N| i_ty!(t, T => a.saturating_to::<T>());
    // ---- C07: limb slices
    from_limbs = |s: LS| Uint::<B, L>::from_limbs(arr64::<L>(&s));
    from_limbs_slice = |s: LS| Uint::<B, L>::from_limbs_slice(&s);
    checked_from_limbs_slice = |s: LS| Uint::<B, L>::checked_from_limbs_slice(&s);
    wrapping_from_limbs_slice = |s: LS| Uint::<B, L>::wrapping_from_limbs_slice(&s);
    overflowing_from_limbs_slice = |s: LS| Uint::<B, L>::overflowing_from_limbs_slice(&s);
    saturating_from_limbs_slice = |s: LS| Uint::<B, L>::saturating_from_limbs_slice(&s);
    // ---- C08: encoders
    as_le_slice = |a: U| a.as_le_slice().to_vec();
    as_le_bytes = |a: U| a.as_le_bytes().to_vec();
    as_le_bytes_trimmed = |a: U| a.as_le_bytes_trimmed().to_vec();
    // the same value at BOTH addresses a u64-aligned type can have relative to 16 bytes (a field behind a u64 in a
    // repr(C) record, every other element of an array): byte views must not depend on where the value lives
    bytes_at_alignments = |a: U| { #[repr(C, align(16))] struct Off<T>(u64, T); #[repr(C, align(16))] struct Al<T>(T); let w = std::hint::black_box(Off(0xdead_beef, a)); let v = std::hint::black_box(Al(a)); let arr = std::hint::black_box([a, a, a]); let f = |x: &Uint<B, L>| (x.as_le_bytes_trimmed().to_vec(), x.to_le_bytes_trimmed_vec(), x.to_be_bytes_trimmed_vec(), x.as_le_slice().to_vec(), x.to_be_bytes_vec()); (f(&w.1), f(&v.0), f(&arr[1]), f(&arr[2]), ((&w.1 as *const Uint<B, L> as usize) % 16, (&v.0 as *const Uint<B, L> as usize) % 16)) };
    to_le_bytes = |a: U| a.to_le_bytes::<BY>();
    to_be_bytes = |a: U| a.to_be_bytes::<BY>();
    // wrong array size parameter: documented to panic at run time
    to_le_bytes_n1 = |a: U| a.to_le_bytes::<1>();
    to_be_bytes_n1 = |a: U| a.to_be_bytes::<1>();
    to_le_bytes_n9 = |a: U| a.to_le_bytes::<9>();
    to_be_bytes_n16 = |a: U| a.to_be_bytes::<16>();
    from_le_bytes_n1 = |s: BY| Uint::<B, L>::from_le_bytes::<1>(arr::<1>(&s));
    from_be_bytes_n9 = |s: BY| Uint::<B, L>::from_be_bytes::<9>(arr::<9>(&s));
    to_le_bytes_vec = |a: U| a.to_le_bytes_vec();
    to_be_bytes_vec = |a: U| a.to_be_bytes_vec();
    to_le_bytes_trimmed_vec = |a: U| a.to_le_bytes_trimmed_vec();
    to_be_bytes_trimmed_vec = |a: U| a.to_be_bytes_trimmed_vec();
    copy_le_bytes_to = |a: U, n: N| { let mut buf = vec![0xa5u8; n]; let r = a.copy_le_bytes_to(&mut buf); (r, buf) };
    copy_be_bytes_to = |a: U, n: N| { let mut buf = vec![0xa5u8; n]; let r = a.copy_be_bytes_to(&mut buf); (r, buf) };
    checked_copy_le_bytes_to = |a: U, n: N| { let mut buf = vec![0xa5u8; n]; let r = a.checked_copy_le_bytes_to(&mut buf); (r, buf) };
    checked_copy_be_bytes_to = |a: U, n: N| { let mut buf = vec![0xa5u8; n]; let r = a.checked_copy_be_bytes_to(&mut buf); (r, buf) };
    // ---- C08: decoders
    from_be_bytes = |s: BY| Uint::<B, L>::from_be_bytes::<BY>(arr::<BY>(&s));
    from_le_bytes = |s: BY| Uint::<B, L>::from_le_bytes::<BY>(arr::<BY>(&s));
    from_be_slice = |s: BY| Uint::<B, L>::from_be_slice(&s);
    from_le_slice = |s: BY| Uint::<B, L>::from_le_slice(&s);
    try_from_be_slice = |s: BY| Uint::<B, L>::try_from_be_slice(&s);
    try_from_le_slice = |s: BY| Uint::<B, L>::try_from_le_slice(&s);
    // ---- C18
    f64_from = |a: U| f64::from(a);
    f64_from_ref = |a: U| f64::from(&a);
    f32_from = |a: U| f32::from(a);
    f32_from_ref = |a: U| f32::from(&a);
    try_from_f64 = |f: F64| Uint::<B, L>::try_from(f);
    from_f64 = |f: F64| Uint::<B, L>::from(f);
    wrapping_from_f64 = |f: F64| Uint::<B, L>::wrapping_from(f);
    saturating_from_f64 = |f: F64| Uint::<B, L>::saturating_from(f);
    try_from_f32 = |f: F32| Uint::<B, L>::try_from(f);
    from_f32 = |f: F32| Uint::<B, L>::from(f);
    wrapping_from_f32 = |f: F32| Uint::<B, L>::wrapping_from(f);
    saturating_from_f32 = |f: F32| Uint::<B, L>::saturating_from(f);
}

width_list!();

fn u(v: &BigUint, bits: usize) -> V {
    V::U(to_limbs(v, bits))
}
fn vu(l: &Limbs) -> V {
    V::U(l.clone())
}
fn maxv(bits: usize) -> V {
    V::U(max_limbs(bits))
}
fn err_tl(bits: usize, payload: V) -> V {
    V::err(V::T(vec![V::s("ValueTooLarge"), V::n(bits), payload]))
}
fn err_neg(bits: usize, payload: V) -> V {
    V::err(V::T(vec![V::s("ValueNegative"), V::n(bits), payload]))
}

/// floor(f + 1/2) for finite f >= 0, exactly, from the IEEE fields.
fn exact_round_half_up(f: f64) -> BigUint {
    let bits = f.to_bits();
    let e = ((bits >> 52) & 0x7ff) as i64;
    let frac = bits & ((1u64 << 52) - 1);
    let (mant, exp) = if e == 0 { (frac, -1074i64) } else { (frac | (1u64 << 52), e - 1075) };
    if exp >= 0 {
        BigUint::from(mant) << (exp as usize)
    } else {
        let sh = (-exp) as usize;
        if sh > 200 {
            return BigUint::zero();
        }
        let num = (BigUint::from(mant) << 1usize) + (BigUint::one() << sh);
        num >> (sh + 1)
    }
}

/// exact integer value of a finite non-negative integral float
fn float_int(f: f64) -> Option<BigUint> {
    if !f.is_finite() || f < 0.0 || f.fract() != 0.0 {
        return None;
    }
    Some(exact_round_half_up(f))
}

/// Acceptable results of Uint -> float: (lo, hi) neighbours as exact integers, None = +infinity allowed.
fn float_neighbours(v: &BigUint, mbits: u64, emax: u64) -> (BigUint, Option<BigUint>, bool) {
    // returns (lo, hi (None if 2^emax), inf_allowed)
    let bl = v.bits();
    if bl > emax {
        // v >= 2^emax: only +infinity
        return (v.clone(), None, true);
    }
    if bl <= mbits {
        return (v.clone(), Some(v.clone()), false);
    }
    let sh = (bl - mbits) as usize;
    let lo = (v >> sh) << sh;
    let hi = if &lo == v { lo.clone() } else { &lo + (BigUint::one() << sh) };
    if hi.bits() > emax {
        // hi would be 2^emax: +infinity only if v >= halfway point between max finite and 2^emax
        let half = &lo + (BigUint::one() << (sh - 1));
        (lo, None, v >= &half)
    } else {
        (lo, Some(hi), false)
    }
}

fn model(bits: usize, op: Op, args: &[V]) -> Expect {
    use Op::*;
    let m = pow2(bits);
    match op {
        try_from_u | from_u | wrapping_from_u | saturating_from_u | uint_try_from_u => {
            let v = BigUint::from(args[1].as_n());
            let fits = v < m;
            let w = &v % &m;
            match op {
                try_from_u | uint_try_from_u => is(if fits { V::ok(u(&v, bits)) } else { err_tl(bits, u(&w, bits)) }),
                from_u => is(if fits { u(&v, bits) } else { V::Panic }),
                wrapping_from_u => is(u(&w, bits)),
                _ => is(if fits { u(&v, bits) } else { maxv(bits) }),
            }
            .nt(!fits || v.bits() > 64)
        }
        try_from_i | from_i | wrapping_from_i | saturating_from_i => {
            let t = args[0].as_n() as usize;
            let v = args[1].as_i();
            let src_bits = IT[t].1 as usize;
            if v < 0 {
                // payload specified only when BITS <= source width
                let specified = bits <= src_bits;
                let w = ((BigUint::one() << 256usize) - BigUint::from(v.unsigned_abs())) % &m;
                return match op {
                    try_from_i => {
                        if specified {
                            is(err_neg(bits, u(&w, bits)))
                        } else {
                            pred("Err(ValueNegative(BITS, _))", move |g| matches!(g, V::Err(e) if matches!(&**e, V::T(t) if t.len() == 3 && t[0] == V::s("ValueNegative") && t[1] == V::n(bits))))
                        }
                    }
                    from_i => is(V::Panic),
                    wrapping_from_i => {
                        if specified {
                            is(u(&w, bits))
                        } else {
                            pred("any value (unspecified), no panic", |g| matches!(g, V::U(_)))
                        }
                    }
                    _ => is(u(&BigUint::zero(), bits)),
                }
                .nt(true);
            }
            let v = BigUint::from(v as u128);
            let fits = v < m;
            let w = &v % &m;
            match op {
                try_from_i => is(if fits { V::ok(u(&v, bits)) } else { err_tl(bits, u(&w, bits)) }),
                from_i => is(if fits { u(&v, bits) } else { V::Panic }),
                wrapping_from_i => is(u(&w, bits)),
                _ => is(if fits { u(&v, bits) } else { maxv(bits) }),
            }
            .nt(!fits)
        }
        try_to_u | try_to_u_ref | to_u | wrapping_to_u | saturating_to_u | uint_try_to_u => {
            let a = big(args[0].limbs());
            let t = args[1].as_n() as usize;
            let tb = UT[t].1 as u64;
            let fits = a.bits() <= tb;
            let low = &a % pow2(tb as usize);
            let low128: u128 = low.iter_u64_digits().enumerate().map(|(i, d)| (d as u128) << (64 * i)).sum();
            let (wv, mv) = if t == 0 { (V::B(low128 != 0), V::B(true)) } else { (V::N(low128), V::N(if tb == 128 { u128::MAX } else { (1u128 << tb) - 1 })) };
            match op {
                try_to_u | try_to_u_ref | uint_try_to_u => {
                    is(if fits { V::ok(wv) } else { V::err(V::T(vec![V::s("Overflow"), V::n(bits), wv, mv])) })
                }
                to_u => is(if fits { wv } else { V::Panic }),
                wrapping_to_u => is(wv),
                _ => is(if fits { wv } else { mv }),
            }
            .nt(!fits)
        }
        try_to_i | try_to_i_ref | to_i | wrapping_to_i | saturating_to_i => {
            let a = big(args[0].limbs());
            let t = args[1].as_n() as usize;
            let tb = IT[t].1 as u64;
            let fits = a.bits() <= tb - 1;
            let low = &a % pow2(tb as usize);
            let low128: u128 = low.iter_u64_digits().enumerate().map(|(i, d)| (d as u128) << (64 * i)).sum();
            // two's complement reinterpretation at tb bits
            let wrapped: i128 = if tb == 128 {
                low128 as i128
            } else if low128 >> (tb - 1) & 1 == 1 {
                (low128 as i128) - (1i128 << tb)
            } else {
                low128 as i128
            };
            let mx: i128 = if tb == 128 { i128::MAX } else { (1i128 << (tb - 1)) - 1 };
            match op {
                try_to_i | try_to_i_ref => is(if fits { V::ok(V::I(wrapped)) } else { V::err(V::T(vec![V::s("Overflow"), V::n(bits), V::I(wrapped), V::I(mx)])) }),
                to_i => is(if fits { V::I(wrapped) } else { V::Panic }),
                wrapping_to_i => is(V::I(wrapped)),
                _ => is(if fits { V::I(wrapped) } else { V::I(mx) }),
            }
            .nt(!fits)
        }
        from_limbs => {
            let s = args[0].limbs();
            let ok = s.last().map_or(true, |t| t & !mask(bits) == 0);
            is(if ok { V::U(s.to_vec()) } else { V::Panic }).nt(!ok)
        }
        from_limbs_slice | checked_from_limbs_slice | wrapping_from_limbs_slice | overflowing_from_limbs_slice | saturating_from_limbs_slice => {
            let v = big(args[0].limbs());
            let fits = v < m;
            let w = &v % &m;
            match op {
                from_limbs_slice => is(if fits { u(&v, bits) } else { V::Panic }),
                checked_from_limbs_slice => is(if fits { V::some(u(&v, bits)) } else { V::None }),
                wrapping_from_limbs_slice => is(u(&w, bits)),
                overflowing_from_limbs_slice => is(V::T(vec![u(&w, bits), V::B(!fits)])),
                _ => is(if fits { u(&v, bits) } else { maxv(bits) }),
            }
            .nt(!fits || args[0].limbs().len() != nlimbs(bits))
        }
        as_le_slice | as_le_bytes | to_le_bytes | to_le_bytes_vec | to_be_bytes | to_be_bytes_vec | as_le_bytes_trimmed | to_le_bytes_trimmed_vec | to_be_bytes_trimmed_vec => {
            let a = big(args[0].limbs());
            let nb = (bits + 7) / 8;
            let mut le = if a.is_zero() { vec![] } else { a.to_bytes_le() };
            let trimmed = le.clone();
            le.resize(nb, 0);
            let e = match op {
                as_le_slice | as_le_bytes | to_le_bytes | to_le_bytes_vec => le,
                to_be_bytes | to_be_bytes_vec => le.into_iter().rev().collect(),
                as_le_bytes_trimmed | to_le_bytes_trimmed_vec => trimmed,
                _ => trimmed.into_iter().rev().collect(),
            };
            is(V::Bytes(e)).nt(true)
        }
        bytes_at_alignments => {
            let a = big(args[0].limbs());
            let nb = (bits + 7) / 8;
            let mut le = if a.is_zero() { vec![] } else { a.to_bytes_le() };
            let trimmed = le.clone();
            le.resize(nb, 0);
            let one = V::T(vec![V::Bytes(trimmed.clone()), V::Bytes(trimmed.clone()), V::Bytes(trimmed.iter().rev().copied().collect()), V::Bytes(le.clone()), V::Bytes(le.iter().rev().copied().collect())]);
            let off = 8; // [u64; 0] is u64-aligned too
            is(V::T(vec![one.clone(), one.clone(), one.clone(), one, V::T(vec![V::n(off), V::n(0)])])).nt(true)
        }
        to_le_bytes_n1 | to_be_bytes_n1 | to_le_bytes_n9 | to_be_bytes_n16 => {
            let n = match op { to_le_bytes_n1 | to_be_bytes_n1 => 1, to_le_bytes_n9 => 9, _ => 16 };
            let nb = (bits + 7) / 8;
            if n != nb {
                return is(V::Panic).nt(true);
            }
            let a = big(args[0].limbs());
            let mut le = if a.is_zero() { vec![] } else { a.to_bytes_le() };
            le.resize(nb, 0);
            if matches!(op, to_be_bytes_n1 | to_be_bytes_n16) {
                le.reverse();
            }
            is(V::Bytes(le)).nt(true)
        }
        from_le_bytes_n1 | from_be_bytes_n9 => {
            let n = if op == from_le_bytes_n1 { 1 } else { 9 };
            let nb = (bits + 7) / 8;
            let sb = args[0].as_bytes();
            let v = if op == from_le_bytes_n1 { BigUint::from_bytes_le(sb) } else { BigUint::from_bytes_be(sb) };
            is(if n == nb && v < m { u(&v, bits) } else { V::Panic }).nt(true)
        }
        copy_le_bytes_to | copy_be_bytes_to | checked_copy_le_bytes_to | checked_copy_be_bytes_to => {
            let a = big(args[0].limbs());
            let n = args[1].as_n() as usize;
            let nb = (bits + 7) / 8;
            let mut le = if a.is_zero() { vec![] } else { a.to_bytes_le() };
            le.resize(nb, 0);
            let be: Vec<u8> = le.iter().rev().copied().collect();
            let checked = matches!(op, checked_copy_le_bytes_to | checked_copy_be_bytes_to);
            if n < nb {
                return if checked { is(V::T(vec![V::None, V::Bytes(vec![0xa5; n])])) } else { is(V::Panic) }.nt(true);
            }
            let mut buf = vec![0xa5u8; n];
            buf[..nb].copy_from_slice(if matches!(op, copy_le_bytes_to | checked_copy_le_bytes_to) { &le } else { &be });
            is(V::T(vec![if checked { V::some(V::n(nb)) } else { V::n(nb) }, V::Bytes(buf)])).nt(n > nb)
        }
        from_be_bytes | from_le_bytes | from_be_slice | from_le_slice | try_from_be_slice | try_from_le_slice => {
            let s = args[0].as_bytes();
            let nb = (bits + 7) / 8;
            let v = if matches!(op, from_be_bytes | from_be_slice | try_from_be_slice) { BigUint::from_bytes_be(s) } else { BigUint::from_bytes_le(s) };
            let ok = s.len() <= nb && v < m;
            let tr = matches!(op, try_from_be_slice | try_from_le_slice);
            is(if ok { if tr { V::some(u(&v, bits)) } else { u(&v, bits) } } else if tr { V::None } else { V::Panic }).nt(!ok || s.len() != nb)
        }
        f64_from | f64_from_ref | f32_from | f32_from_ref => {
            let v = big(args[0].limbs());
            let is64 = matches!(op, f64_from | f64_from_ref);
            let (mb, emax) = if is64 { (53, 1024) } else { (24, 128) };
            let (lo, hi, inf_ok) = float_neighbours(&v, mb, emax);
            let nt = v.bits() > mb;
            pred(&format!("one of the two representable neighbours of the exact value (lo={lo}, hi={hi:?}, +inf allowed={inf_ok})"), move |g| {
                let f = match g {
                    V::F(b) => f64::from_bits(*b),
                    V::F32(b) => f32::from_bits(*b) as f64,
                    _ => return false,
                };
                if f.is_nan() || f < 0.0 {
                    return false;
                }
                if f.is_infinite() {
                    return inf_ok;
                }
                if v.bits() > emax {
                    return false;
                }
                match float_int(f) {
                    Some(x) => x == lo || Some(&x) == hi.as_ref(),
                    None => false,
                }
            })
            .nt(nt)
        }
        try_from_f64 | from_f64 | wrapping_from_f64 | saturating_from_f64 | try_from_f32 | from_f32 | wrapping_from_f32 | saturating_from_f32 => {
            let f = match &args[0] {
                V::F(b) => f64::from_bits(*b),
                V::F32(b) => f32::from_bits(*b) as f64,
                _ => panic!("harness: float expected"),
            };
            // classification
            #[derive(PartialEq)]
            enum C {
                Nan,
                Neg,
                Big,
                Ok(BigUint),
            }
            let c = if f.is_nan() {
                C::Nan
            } else if f < 0.0 {
                C::Neg
            } else if f.is_infinite() {
                C::Big
            } else {
                let r = exact_round_half_up(f);
                if r < m { C::Ok(r) } else { C::Big }
            };
            let nt = !matches!(c, C::Ok(_)) || f >= 4503599627370496.0 || f.fract() != 0.0;
            let tag = |name: &'static str| {
                pred(&format!("Err({name}(BITS, <payload unspecified>))"), move |g| {
                    matches!(g, V::Err(e) if matches!(&**e, V::T(t) if t.len() >= 2 && t[0] == V::s(name) && t[1] == V::n(bits)))
                })
            };
            match op {
                try_from_f64 | try_from_f32 => match c {
                    C::Nan => is(V::err(V::T(vec![V::s("NotANumber"), V::n(bits)]))),
                    C::Neg => tag("ValueNegative"),
                    C::Big => tag("ValueTooLarge"),
                    C::Ok(r) => is(V::ok(u(&r, bits))),
                },
                from_f64 | from_f32 => match c {
                    C::Ok(r) => is(u(&r, bits)),
                    _ => is(V::Panic),
                },
                wrapping_from_f64 | wrapping_from_f32 => match c {
                    C::Ok(r) => is(u(&r, bits)),
                    _ => pred("any value (wrapping of out-of-range floats is unspecified), no panic", |g| matches!(g, V::U(_))),
                },
                _ => match c {
                    C::Ok(r) => is(u(&r, bits)),
                    C::Big => is(maxv(bits)),
                    _ => is(u(&BigUint::zero(), bits)),
                },
            }
            .nt(nt)
        }
    }
}

group_glue!();

// ---------------------------------------------------------------- C07

fn uval_alphabet() -> Vec<u128> {
    let mut v = vec![0u128, u128::MAX];
    for k in 0..128u32 {
        for d in [-1i128, 0, 1] {
            v.push((1u128 << k).wrapping_add(d as u128));
        }
    }
    for x in [0x7fu128, 0x80, 0xff, 0x100, 0x7fff, 0x8000, 0xffff, 0x10000] {
        v.push(x);
    }
    // values with both limbs populated (for the two-limb u128 path)
    for hi in [1u128, 3, 7, 0x7fff_ffff_ffff_ffff, 0x8000_0000_0000_0000, u64::MAX as u128] {
        for lo in [0u128, 5, u64::MAX as u128] {
            v.push((hi << 64) | lo);
        }
    }
    v.sort();
    v.dedup();
    v
}
fn ival_alphabet() -> Vec<i128> {
    let mut v = vec![0i128, i128::MAX, i128::MIN];
    for k in 0..127u32 {
        for d in [-1i128, 0, 1] {
            let p = (1i128 << k).wrapping_add(d);
            v.push(p);
            v.push(p.wrapping_neg());
        }
    }
    v.sort();
    v.dedup();
    v
}

const C07_WIDTHS: &[usize] = &[0, 1, 2, 3, 4, 5, 6, 7, 8, 9, 10, 11, 12, 13, 14, 15, 16, 17, 31, 32, 33, 40, 63, 64, 65, 66, 72, 127, 128, 129, 136, 192, 200, 256];
const FROM_U: &[Op] = &[Op::try_from_u, Op::from_u, Op::wrapping_from_u, Op::saturating_from_u, Op::uint_try_from_u];
const FROM_I: &[Op] = &[Op::try_from_i, Op::from_i, Op::wrapping_from_i, Op::saturating_from_i];
const TO_U: &[Op] = &[Op::try_to_u, Op::try_to_u_ref, Op::to_u, Op::wrapping_to_u, Op::saturating_to_u, Op::uint_try_to_u];
const TO_I: &[Op] = &[Op::try_to_i, Op::try_to_i_ref, Op::to_i, Op::wrapping_to_i, Op::saturating_to_i];
const SLICE_OPS: &[Op] = &[Op::from_limbs_slice, Op::checked_from_limbs_slice, Op::wrapping_from_limbs_slice, Op::overflowing_from_limbs_slice, Op::saturating_from_limbs_slice];

fn c07(r: &Runner) {
    r.set_rule("into Uint: ALL values of bool/u8/i8/u16/i16; for 32/64/128-bit types every +-(2^k + d), d in {-1,0,1}, MIN/MAX and two-limb patterns (thorough: all 2^32 values of u32/i32 at widths 7, 31, 32, 33); limb slices of every length 0..LIMBS+2 over the alphabet; from Uint: every value of S(B), B <= 12, and of L/R/P(B); Uint->Uint over a 10x10 (src,dst) width grid. non-trivial = the conversion does not fit (error / wrap / saturate) or crosses a limb");
    let ua = uval_alphabet();
    let ia = ival_alphabet();
    for &bits in if SWEEP { WIDTHS } else { C07_WIDTHS } {
        // unsigned sources
        let mut cases: Vec<[V; 2]> = vec![];
        for (t, (_, tb)) in UT.iter().enumerate() {
            let vals: Vec<u128> = match *tb {
                1 => vec![0, 1],
                8 => (0..=255u128).collect(),
                16 if !SWEEP => (0..=65535u128).collect(),
                tb => ua.iter().copied().filter(|x| tb == 128 || *x < (1u128 << tb)).collect(),
            };
            for v in vals {
                cases.push([V::n(t), V::N(v)]);
            }
        }
        r.universe(&format!("unsigned primitives -> U{bits} ({} values)", cases.len()), bits, cases.len(), |i, l| {
            l.states(1);
            for &op in FROM_U {
                exec(l, bits, op, &cases[i]);
            }
        });
        let mut cases: Vec<[V; 2]> = vec![];
        for (t, (_, tb)) in IT.iter().enumerate() {
            let vals: Vec<i128> = match *tb {
                8 => (-128..=127i128).collect(),
                16 if !SWEEP => (-32768..=32767i128).collect(),
                tb => ia.iter().copied().filter(|x| tb == 128 || (*x >= -(1i128 << (tb - 1)) && *x < (1i128 << (tb - 1)))).collect(),
            };
            for v in vals {
                cases.push([V::n(t), V::I(v)]);
            }
        }
        r.universe(&format!("signed primitives -> U{bits} ({} values)", cases.len()), bits, cases.len(), |i, l| {
            l.states(1);
            for &op in FROM_I {
                exec(l, bits, op, &cases[i]);
            }
        });
        // Uint -> primitives
        let (vals, d) = pick(bits, if SWEEP { 500 } else { 6000 }, &salt(r.seed));
        r.universe(&format!("{d} -> 13 primitive types"), bits, vals.len(), |i, l| {
            let a = vu(&vals[i]);
            l.states(1);
            for t in 0..UT.len() {
                let args = [a.clone(), V::n(t)];
                for &op in TO_U {
                    exec(l, bits, op, &args);
                }
            }
            for t in 0..IT.len() {
                let args = [a.clone(), V::n(t)];
                for &op in TO_I {
                    exec(l, bits, op, &args);
                }
            }
        });
        // limb slices: every length 0..LIMBS+2 over the alphabet (product capped by shrinking the alphabet)
        let nl = nlimbs(bits);
        let mut slices: Vec<Limbs> = vec![];
        for len in 0..=nl + 2 {
            let al: &[u64] = if len <= 3 { A8 } else if len <= 5 { A5 } else { A3 };
            let mut cur: Vec<Limbs> = vec![vec![]];
            if len > 7 {
                // long slices: run shapes instead of the full product
                cur = runs(64 * len, &[0, 1, 1 << 63, u64::MAX]);
            }
            for _ in 0..(if len > 7 { 0 } else { len }) {
                let mut nx = vec![];
                for v in &cur {
                    for &a in al {
                        let mut w = v.clone();
                        w.push(a);
                        nx.push(w);
                    }
                }
                cur = nx;
            }
            // also top limb = mask, mask+1 where the slice has exactly LIMBS limbs
            if len == nl && nl > 0 {
                let mk = mask(bits);
                for x in [mk, mk.wrapping_add(1), mk >> 1, mk.wrapping_sub(1)] {
                    let mut w = vec![u64::MAX; nl];
                    w[nl - 1] = x;
                    cur.push(w.clone());
                    w[0] = 0;
                    cur.push(w);
                }
            }
            slices.extend(cur);
        }
        // LONG slices: far more limbs than the type has (a zero-extended value is representable; a fixed-size zero block
        // compared against the excess limbs is sized for typical widths): excess of 63..=66, 127..=130 and 300 limbs, all
        // zero, or with one non-zero limb at the first / middle / last excess position
        for extra in [63usize, 64, 65, 66, 127, 128, 129, 130, 300] {
            let mut base = vec![0u64; nl + extra];
            for (i, x) in base.iter_mut().take(nl).enumerate() {
                *x = if i + 1 == nl { mask(bits) } else { u64::MAX };
            }
            slices.push(base.clone());
            slices.push(vec![0u64; nl + extra]);
            for pos in [nl, nl + extra / 2, nl + extra - 1] {
                let mut w = base.clone();
                w[pos] = 1;
                slices.push(w);
            }
        }
        slices.sort();
        slices.dedup();
        r.universe(&format!("limb slices of length 0..={} and with 63..=300 excess limbs ({} slices)", nl + 2, slices.len()), bits, slices.len(), |i, l| {
            let args = [V::U(slices[i].clone())];
            l.states(1);
            for &op in SLICE_OPS {
                exec(l, bits, op, &args);
            }
            if slices[i].len() == nl {
                exec(l, bits, Op::from_limbs, &args);
            }
        });
    }
    if r.is_thorough() && !SWEEP {
        for bits in [7usize, 31, 32, 33] {
            r.universe(&format!("ALL 2^32 u32 and i32 values -> U{bits}"), bits, 1 << 16, |i, l| {
                for lo in 0..(1u128 << 16) {
                    let v = ((i as u128) << 16) | lo;
                    l.states(2);
                    exec(l, bits, Op::try_from_u, &[V::n(3), V::N(v)]);
                    exec(l, bits, Op::wrapping_from_u, &[V::n(3), V::N(v)]);
                    exec(l, bits, Op::try_from_i, &[V::n(2), V::I(v as u32 as i32 as i128)]);
                    exec(l, bits, Op::wrapping_from_i, &[V::n(2), V::I(v as u32 as i32 as i128)]);
                }
            });
        }
    }
    if !SWEEP {
        uu_grid(r);
    }
}

fn uu<const B1: usize, const L1: usize, const B2: usize, const L2: usize>(r: &Runner) {
    // source Uint<B1> -> destination Uint<B2>
    let (vals, d) = pick(B1, 3000, &[]);
    let m2 = pow2(B2);
    r.universe(&format!("U{B1} ({d}) -> U{B2}"), B1, vals.len(), |i, l| {
        let args = [vu(&vals[i])];
        let v = big(&vals[i]);
        let fits = v < m2;
        let w = &v % &m2;
        l.states(1);
        macro_rules! one {
            ($name:literal, $e:expr, $exp:expr) => {{
                let got = l.guard($name, $name, B2, &args, || {
                    let a: Uint<B1, L1> = FromV::<B1, L1>::from_v(&args[0]);
                    let _ = &a;
                    IntoV::into_v($e(a))
                });
                l.record($name, $name, B2, &args, got, is($exp).nt(!fits || L1 != L2));
            }};
        }
        one!("uint_try_from(Uint<B1>) -> Uint<B2>", |a: Uint<B1, L1>| <Uint<B2, L2> as UintTryFrom<Uint<B1, L1>>>::uint_try_from(a), if fits { V::ok(u(&v, B2)) } else { err_tl(B2, u(&w, B2)) });
        one!("Uint<B2>::from(Uint<B1>)", |a: Uint<B1, L1>| Uint::<B2, L2>::from(a), if fits { u(&v, B2) } else { V::Panic });
        one!("Uint<B2>::wrapping_from(Uint<B1>)", |a: Uint<B1, L1>| Uint::<B2, L2>::wrapping_from(a), u(&w, B2));
        one!("Uint<B2>::saturating_from(Uint<B1>)", |a: Uint<B1, L1>| Uint::<B2, L2>::saturating_from(a), if fits { u(&v, B2) } else { maxv(B2) });
        one!("Uint<B1>::uint_try_to::<Uint<B2>>", |a: Uint<B1, L1>| <Uint<B1, L1> as UintTryTo<Uint<B2, L2>>>::uint_try_to(&a),
            if fits { V::ok(u(&v, B2)) } else { V::err(V::T(vec![V::s("Overflow"), V::n(B2), u(&w, B2), maxv(B2)])) });
        one!("Uint<B2>::from_uint(Uint<B1>) [deprecated]", |a: Uint<B1, L1>| { #[allow(deprecated)] let x = Uint::<B2, L2>::from_uint(a); x }, if fits { u(&v, B2) } else { V::Panic });
        one!("Uint<B2>::checked_from_uint(Uint<B1>) [deprecated]", |a: Uint<B1, L1>| { #[allow(deprecated)] let x = Uint::<B2, L2>::checked_from_uint(a); x }, if fits { V::some(u(&v, B2)) } else { V::None });
        one!("Uint<B1>::to::<Uint<B2>>", |a: Uint<B1, L1>| a.to::<Uint<B2, L2>>(), if fits { u(&v, B2) } else { V::Panic });
        one!("Uint<B1>::wrapping_to::<Uint<B2>>", |a: Uint<B1, L1>| a.wrapping_to::<Uint<B2, L2>>(), u(&w, B2));
        one!("Uint<B1>::saturating_to::<Uint<B2>>", |a: Uint<B1, L1>| a.saturating_to::<Uint<B2, L2>>(), if fits { u(&v, B2) } else { maxv(B2) });
    });
}
macro_rules! uu_row {
    ($r:expr; $a:literal; $($b:literal),*) => {$( uu::<$a, {($a + 63) / 64}, $b, {($b + 63) / 64}>($r); )*};
}
fn uu_grid(r: &Runner) {
    uu_row!(r; 0; 0, 1, 8, 63, 64, 65, 128, 129, 256, 320);
    uu_row!(r; 1; 0, 1, 8, 63, 64, 65, 128, 129, 256, 320);
    uu_row!(r; 8; 0, 1, 8, 63, 64, 65, 128, 129, 256, 320);
    uu_row!(r; 63; 0, 1, 8, 63, 64, 65, 128, 129, 256, 320);
    uu_row!(r; 64; 0, 1, 8, 63, 64, 65, 128, 129, 256, 320);
    uu_row!(r; 65; 0, 1, 8, 63, 64, 65, 128, 129, 256, 320);
    uu_row!(r; 128; 0, 1, 8, 63, 64, 65, 128, 129, 256, 320);
    uu_row!(r; 129; 0, 1, 8, 63, 64, 65, 128, 129, 256, 320);
    uu_row!(r; 256; 0, 1, 8, 63, 64, 65, 128, 129, 256, 320);
    uu_row!(r; 320; 0, 1, 8, 63, 64, 65, 128, 129, 256, 320);
}

// ---------------------------------------------------------------- C08

const C08_WIDTHS_Q: &[usize] = &[0, 1, 2, 3, 4, 5, 6, 7, 8, 9, 10, 11, 12, 13, 14, 15, 16, 17, 24, 25, 40, 60, 63, 64, 65, 72, 120, 121, 127, 128, 129, 136, 192, 200, 250, 256, 257];
const C08_WIDTHS_T: &[usize] = &[0, 1, 2, 3, 4, 5, 6, 7, 8, 9, 10, 11, 12, 13, 14, 15, 16, 17, 24, 25, 31, 32, 33, 40, 60, 63, 64, 65, 66, 72, 120, 121, 127, 128, 129, 136, 191, 192, 193, 200, 250, 255, 256, 257, 320, 384, 511, 512, 513, 1024];
const ENC: &[Op] = &[
    Op::as_le_slice, Op::as_le_bytes, Op::as_le_bytes_trimmed, Op::to_le_bytes, Op::to_be_bytes, Op::to_le_bytes_vec, Op::to_be_bytes_vec,
    Op::to_le_bytes_trimmed_vec, Op::to_be_bytes_trimmed_vec, Op::bytes_at_alignments,
];
const COPY: &[Op] = &[Op::copy_le_bytes_to, Op::copy_be_bytes_to, Op::checked_copy_le_bytes_to, Op::checked_copy_be_bytes_to];
const DEC: &[Op] = &[Op::from_be_slice, Op::from_le_slice, Op::try_from_be_slice, Op::try_from_le_slice];

fn c08(r: &Runner) {
    r.set_rule("encoders on every value of S(B), B <= 16, and of L/R/P(B); copy forms into buffers of every length 0..BYTES+2 pre-filled with a sentinel; decoders on ALL byte strings of length 0..2 (3 thorough) for widths <= 25 bits and on all run-shaped strings x^i.y.z^j over {00,01,7f,80,ff} for every length 0..BYTES+8 (contains the full-length strings with excess high bits for every mask), plus round trips of every encoded value. non-trivial: every encoding; decodes that are rejected or not full length");
    let ws = if SWEEP { WIDTHS } else if r.is_thorough() { C08_WIDTHS_T } else { C08_WIDTHS_Q };
    let al = [0x00u8, 0x01, 0x7f, 0x80, 0xff];
    for &bits in ws {
        let nb = (bits + 7) / 8;
        let (vals, d) = pick(bits, if SWEEP { 1200 } else if r.is_thorough() { 70_000 } else { if bits <= 16 { 70_000 } else { 12_000 } }, &salt(r.seed));
        r.universe(&format!("{d} encode + round trip"), bits, vals.len(), |i, l| {
            let a = vu(&vals[i]);
            l.states(1);
            for &op in ENC {
                exec(l, bits, op, &[a.clone()]);
            }
            if i % 16 == 0 {
                for op in [Op::to_le_bytes_n1, Op::to_be_bytes_n1, Op::to_le_bytes_n9, Op::to_be_bytes_n16] {
                    exec(l, bits, op, &[a.clone()]);
                }
                exec(l, bits, Op::from_le_bytes_n1, &[V::Bytes(vec![(i & 0xff) as u8])]);
                exec(l, bits, Op::from_be_bytes_n9, &[V::Bytes(vec![0, 0, 0, 0, 0, 0, 0, 0, (i & 0xff) as u8])]);
            }
            // round trips through the fixed-size decoders
            let v = big(&vals[i]);
            let mut le = if v.is_zero() { vec![] } else { v.to_bytes_le() };
            le.resize(nb, 0);
            let be: Vec<u8> = le.iter().rev().copied().collect();
            exec(l, bits, Op::from_le_bytes, &[V::Bytes(le.clone())]);
            exec(l, bits, Op::from_be_bytes, &[V::Bytes(be.clone())]);
            for &op in DEC {
                let s = if matches!(op, Op::from_be_slice | Op::try_from_be_slice) { &be } else { &le };
                exec(l, bits, op, &[V::Bytes(s.clone())]);
            }
        });
        let (cv, cd) = pick(bits, if SWEEP { 60 } else { 600 }, &[]);
        // buffers up to and beyond the size of the limb storage (8 * LIMBS >= BYTES): whatever the caller keeps after
        // the first BYTES bytes must survive the copy
        let top = (8 * nlimbs(bits)).max(nb) + 9;
        r.universe(&format!("{cd} x buffer length 0..={top}"), bits, cv.len(), |i, l| {
            let a = vu(&cv[i]);
            for n in 0..=top {
                l.states(1);
                for &op in COPY {
                    exec(l, bits, op, &[a.clone(), V::n(n)]);
                }
            }
        });
        // run-shaped byte strings
        let mut strs: Vec<Vec<u8>> = vec![vec![]];
        for n in 1..=nb + 8 {
            for i in 0..n {
                for &x in &al {
                    for &y in &al {
                        for &z in &al {
                            let mut s = vec![x; n];
                            s[i] = y;
                            for b in s.iter_mut().skip(i + 1) {
                                *b = z;
                            }
                            strs.push(s);
                        }
                    }
                }
            }
            if strs.len() > (if SWEEP { 40_000 } else { 400_000 }) {
                break;
            }
        }
        // OVER-LONG slices whose surplus is a run of zero bytes (16, 17, 24, 32, 48, 64 of them) in front of / behind a
        // full-length value: longer than BYTES is not representable as a slice, whatever the surplus bytes are
        if bits <= 1024 {
            for pad in [9usize, 15, 16, 17, 24, 31, 32, 33, 48, 64, 65, 128] {
                for fill in [0x00u8, 0x01, 0xff] {
                    let mut s = vec![0u8; pad];
                    s.extend(vec![fill; nb]);
                    strs.push(s.clone());
                    s.reverse();
                    strs.push(s);
                }
                strs.push(vec![0u8; nb + pad]);
            }
        }
        // exact boundary strings: 2^bits - 1, 2^bits, 2^bits + 1 in both byte orders at lengths nb, nb+1
        let mp = pow2(bits);
        for v in [&mp - 1u32, mp.clone(), &mp + 1u32, &mp >> 1, (&mp >> 1) + 1u32] {
            let mut le = if v.is_zero() { vec![] } else { v.to_bytes_le() };
            for len in [nb, nb + 1, le.len()] {
                if le.len() <= len {
                    le.resize(len, 0);
                    strs.push(le.clone());
                    strs.push(le.iter().rev().copied().collect());
                }
            }
        }
        strs.sort();
        strs.dedup();
        r.universe(&format!("run-shaped byte strings of length 0..={} ({} strings)", nb + 8, strs.len()), bits, strs.len(), |i, l| {
            let args = [V::Bytes(strs[i].clone())];
            l.states(1);
            for &op in DEC {
                exec(l, bits, op, &args);
            }
            if strs[i].len() == nb {
                exec(l, bits, Op::from_le_bytes, &args);
                exec(l, bits, Op::from_be_bytes, &args);
            }
        });
        if bits <= 25 {
            let maxlen = if r.is_thorough() && !SWEEP { 3 } else { 2 };
            let total: usize = (0..=maxlen).map(|k| 1usize << (8 * k)).sum();
            r.universe(&format!("ALL byte strings of length 0..={maxlen}"), bits, total, |i, l| {
                // index -> string
                let mut k = 0;
                let mut idx = i;
                while idx >= (1usize << (8 * k)) {
                    idx -= 1usize << (8 * k);
                    k += 1;
                }
                let s: Vec<u8> = (0..k).map(|j| (idx >> (8 * j)) as u8).collect();
                let args = [V::Bytes(s)];
                l.states(1);
                for &op in DEC {
                    exec(l, bits, op, &args);
                }
            });
        }
    }
}

// ---------------------------------------------------------------- C18

const C18_WIDTHS_Q: &[usize] = &[0, 1, 8, 24, 25, 53, 54, 63, 64, 65, 72, 127, 128, 129, 256, 1023, 1024, 1025, 2048];
const C18_WIDTHS_T: &[usize] = &[0, 1, 2, 7, 8, 16, 24, 25, 32, 53, 54, 63, 64, 65, 72, 127, 128, 129, 192, 256, 512, 1023, 1024, 1025, 1100, 2048];
const FROM_F64: &[Op] = &[Op::try_from_f64, Op::from_f64, Op::wrapping_from_f64, Op::saturating_from_f64];
const FROM_F32: &[Op] = &[Op::try_from_f32, Op::from_f32, Op::wrapping_from_f32, Op::saturating_from_f32];

fn f64_patterns(bits: usize) -> Vec<u64> {
    let mut mants: Vec<u64> = vec![0, 1, 2, 3, 1 << 51, (1 << 51) + 1, (1 << 51) - 1, (1 << 52) - 1, (1 << 52) - 2, 0x000a_aaaa_aaaa_aaaa, 0x0005_5555_5555_5555];
    for k in 0..52 {
        mants.push(1 << k);
        mants.push((1u64 << 52) - (1 << k));
        mants.push((1u64 << k).wrapping_sub(1) & ((1 << 52) - 1));
    }
    mants.sort();
    mants.dedup();
    let mut pats: Vec<u64> = vec![];
    for sign in [0u64, 1] {
        for e in 0..2048u64 {
            for &mt in &mants {
                pats.push((sign << 63) | (e << 52) | mt);
            }
        }
    }
    // integers 2^52 + k and halves k + 0.5 for k in P(52)
    for j in 0..=52u32 {
        for d in [-2i64, -1, 0, 1, 2] {
            let k = ((1i64 << j) + d).max(0) as u64;
            if k < (1 << 52) {
                pats.push((((1u64 << 52) + k) as f64).to_bits());
                pats.push((k as f64 + 0.5).to_bits());
                pats.push((((1u64 << 53) - 1 - k) as f64).to_bits());
            }
        }
    }
    if bits < 1023 {
        let p = (bits as f64).exp2();
        for f in [p, p - 0.5, p - 1.0, p + 1.0, f64::from_bits(p.to_bits() - 1), f64::from_bits(p.to_bits() + 1), p - 0.25, p / 2.0, p - 1.5] {
            pats.push(f.to_bits());
        }
    }
    pats.sort();
    pats.dedup();
    pats
}

fn c18(r: &Runner) {
    r.set_rule("float -> Uint: sign x ALL 2048 exponents x ~160 mantissa patterns (one-bit, low-run, extremes), every integer 2^52+k and half k+0.5 for k in P(52), 2^BITS and its neighbours, subnormals, +-0, +-inf, NaNs (f64); f32: ALL 2^32 bit patterns at width 64 (thorough: 8 widths) and sign x all 256 exponents x 55 mantissas elsewhere. Uint -> float: P(B), R(B), 2^k*m for rounding-critical m and every k, monotonicity along the sorted universe. Oracle exact (integer arithmetic on the IEEE fields). non-trivial = rounding is involved (fraction or >53/24 significant bits) or the result is an error class");
    let ws = if SWEEP { WIDTHS } else if r.is_thorough() { C18_WIDTHS_T } else { C18_WIDTHS_Q };
    for &bits in ws {
        let pats = f64_patterns(bits);
        r.universe(&format!("f64 patterns -> U{bits} ({} patterns)", pats.len()), bits, pats.len(), |i, l| {
            let args = [V::F(pats[i])];
            l.states(1);
            for &op in FROM_F64 {
                exec(l, bits, op, &args);
            }
        });
        // f32 alphabet
        let mut m32: Vec<u32> = vec![0, 1, 2, 3, 1 << 22, (1 << 22) + 1, (1 << 23) - 1, (1 << 23) - 2];
        for k in 0..23 {
            m32.push(1 << k);
            m32.push((1u32 << 23) - (1 << k));
        }
        m32.sort();
        m32.dedup();
        let mut p32: Vec<u32> = vec![];
        for sign in [0u32, 1] {
            for e in 0..256u32 {
                for &mt in &m32 {
                    p32.push((sign << 31) | (e << 23) | mt);
                }
            }
        }
        r.universe(&format!("f32 patterns -> U{bits} ({} patterns)", p32.len()), bits, p32.len(), |i, l| {
            let args = [V::F32(p32[i])];
            l.states(1);
            for &op in FROM_F32 {
                exec(l, bits, op, &args);
            }
        });
        // Uint -> float
        let m = pow2(bits);
        let mut vals: Vec<BigUint> = pick(bits, if SWEEP { 400 } else { 4000 }, &[]).0.iter().map(|x| big(x)).collect();
        for k in 0..=bits {
            let p = pow2(k);
            for mm in [
                1u64, (1 << 53) - 1, 1 << 53, (1 << 53) + 1, (1 << 53) + 2, (1 << 53) + 3, (1 << 54) - 1, (1 << 54) + 1, (1 << 54) + 2, (1 << 54) + 3,
                (1 << 24) - 1, (1 << 24) + 1, (1 << 25) + 1, (1 << 25) + 3, u64::MAX, u64::MAX - 1, (1u64 << 63) + (1 << 10), (1u64 << 63) + (1 << 10) + 1,
                (1u64 << 63) + (1 << 10) - 1, (1u64 << 63) + (1 << 39), (1u64 << 63) + (1 << 39) + 1, (1u64 << 63) + (1 << 39) - 1,
            ] {
                for d in [-1i32, 0, 1] {
                    let base = &p * mm;
                    let v = if d < 0 {
                        if base.is_zero() { continue } else { &base - 1u32 }
                    } else {
                        &base + d as u32
                    };
                    if v < m {
                        vals.push(v);
                    }
                }
            }
        }
        // rounding thresholds at the top of each float range: max finite, the midpoint T to 2^emax beyond which
        // only +inf is right, and T +- 2^j for every j (double-rounding and overflow-threshold slips live here)
        for (p, emax) in [(24usize, 128usize), (53, 1024)] {
            if bits < emax - p {
                continue;
            }
            let maxf = (pow2(p) - 1u32) << (emax - p);
            let t = &maxf + pow2(emax - p - 1);
            let mut push = |v: BigUint| {
                if v < m {
                    vals.push(v);
                }
            };
            push(maxf.clone());
            push(&maxf - 1u32);
            push(&maxf + 1u32);
            push(t.clone());
            for j in 0..(emax - p) {
                push(&t - pow2(j));
                push(&t + pow2(j));
                push(&t - pow2(j) - 1u32);
            }
            // the same at every lower binade top: (2^p - 1) * 2^k + half an ulp +- 1
            for k in (1..emax - p).step_by(7) {
                let hf = ((pow2(p) - 1u32) << k) + pow2(k - 1);
                push(&hf - 1u32);
                push(hf.clone());
                push(&hf + 1u32);
            }
        }
        vals.sort();
        vals.dedup();
        let lv: Vec<Limbs> = vals.iter().map(|v| to_limbs(v, bits)).collect();
        r.universe(&format!("U{bits} -> f64/f32 ({} values)", lv.len()), bits, lv.len(), |i, l| {
            let args = [vu(&lv[i])];
            l.states(1);
            for op in [Op::f64_from, Op::f64_from_ref, Op::f32_from, Op::f32_from_ref] {
                exec(l, bits, op, &args);
            }
        });
        // monotonicity along the sorted universe (sequential pass on real results)
        r.universe_seq(&format!("U{bits} -> float monotone along {} sorted values", lv.len()), bits, |l| {
            let mut prev: Option<(V, V)> = None;
            let mut prev_args = V::Unit;
            for x in &lv {
                let args = [vu(x)];
                let g64 = l.guard("f64_from", Op::f64_from.src(), bits, &args, || dispatch(bits, Op::f64_from, &args));
                let g32 = l.guard("f32_from", Op::f32_from.src(), bits, &args, || dispatch(bits, Op::f32_from, &args));
                if let Some((p64, p32)) = &prev {
                    let pa = [prev_args.clone(), args[0].clone()];
                    let ok64 = matches!((p64, &g64), (V::F(a), V::F(b)) if f64::from_bits(*a) <= f64::from_bits(*b));
                    let ok32 = matches!((p32, &g32), (V::F32(a), V::F32(b)) if f32::from_bits(*a) <= f32::from_bits(*b));
                    l.record("f64_from monotone", "|a: U, b: U| (f64::from(a), f64::from(b)) /* a < b */", bits, &pa, V::T(vec![p64.clone(), g64.clone()]), pred("f64::from(a) <= f64::from(b) for a < b", move |_| ok64));
                    l.record("f32_from monotone", "|a: U, b: U| (f32::from(a), f32::from(b)) /* a < b */", bits, &pa, V::T(vec![p32.clone(), g32.clone()]), pred("f32::from(a) <= f32::from(b) for a < b", move |_| ok32));
                }
                prev_args = args[0].clone();
                prev = Some((g64, g32));
                l.states(1);
            }
        });
    }
    // one GIANT width (65 664 bits = 1026 limbs): bit lengths beyond 2^16, where an exponent squeezed through a 16-bit
    // type would wrap; values around every power-of-two bit length up to the width
    if !SWEEP {
        let bits = 65_664usize;
        let m = pow2(bits);
        let mut vals: Vec<BigUint> = vec![BigUint::zero(), BigUint::one(), &m - 1u32, &m - 2u32];
        for k in [23usize, 24, 52, 53, 63, 64, 127, 128, 1023, 1024, 2047, 2048, 4095, 4096, 16_383, 16_384, 32_767, 32_768, 65_535, 65_536, 65_537, 65_599, 65_600, 65_601, 65_662, 65_663] {
            let p = pow2(k);
            for v in [&p - 1u32, p.clone(), &p + 1u32, &p * ((1u64 << 53) + 1), &p * ((1u64 << 24) + 1), &p * 3u32] {
                if v < m {
                    vals.push(v);
                }
            }
        }
        vals.sort();
        vals.dedup();
        let lv: Vec<Limbs> = vals.iter().map(|v| to_limbs(v, bits)).collect();
        r.universe(&format!("GIANT U{bits} -> f64/f32 ({} values around bit lengths 2^k up to the width)", lv.len()), bits, lv.len(), |i, l| {
            let args = [vu(&lv[i])];
            l.states(1);
            for op in [Op::f64_from, Op::f64_from_ref, Op::f32_from, Op::f32_from_ref] {
                exec(l, bits, op, &args);
            }
        });
        // float -> the giant type: the largest finite values, halves, specials
        let fl: Vec<u64> = [0.0f64, 0.5, 1.0, 1.5, 255.5, 4503599627370497.0, 9007199254740993.0, 1e300, f64::MAX, f64::INFINITY, f64::NEG_INFINITY, f64::NAN, -1.0, -0.4]
            .iter()
            .map(|f| f.to_bits())
            .collect();
        r.universe(&format!("GIANT f64 -> U{bits} ({} patterns)", fl.len()), bits, fl.len(), |i, l| {
            l.states(1);
            for &op in FROM_F64 {
                exec(l, bits, op, &[V::F(fl[i])]);
            }
        });
    }
    // ALL 2^32 f32 bit patterns
    let sweep_widths: &[usize] = if SWEEP { &[] } else if r.is_thorough() { &[0, 1, 8, 24, 25, 64, 128, 129] } else { &[64] };
    for &bits in sweep_widths {
        f32_sweep(r, bits);
    }
}

/// One pattern of the sweep, called on the real code without going through `V` (tight loop).
#[inline]
fn sweep_cmp<const B: usize, const L: usize>(f: f32, exp: &Result<u128, u8>) -> bool {
    use ruint::ToUintError as E;
    match (Uint::<B, L>::try_from(f), exp) {
        (Ok(x), Ok(v)) => {
            let lm = x.as_limbs();
            let g0 = lm.first().copied().unwrap_or(0) as u128 | ((lm.get(1).copied().unwrap_or(0) as u128) << 64);
            g0 == *v && lm.iter().skip(2).all(|z| *z == 0) && (L == 0 || lm[L - 1] & !mask(B) == 0)
        }
        (Err(E::NotANumber(b)), Err(0)) => b == B,
        (Err(E::ValueNegative(b, _)), Err(1)) => b == B,
        (Err(E::ValueTooLarge(b, _)), Err(2)) => b == B,
        _ => false,
    }
}
fn sweep_one(bits: usize, f: f32, exp: &Result<u128, u8>) -> bool {
    match bits {
        0 => sweep_cmp::<0, 0>(f, exp),
        1 => sweep_cmp::<1, 1>(f, exp),
        8 => sweep_cmp::<8, 1>(f, exp),
        24 => sweep_cmp::<24, 1>(f, exp),
        25 => sweep_cmp::<25, 1>(f, exp),
        64 => sweep_cmp::<64, 1>(f, exp),
        128 => sweep_cmp::<128, 2>(f, exp),
        129 => sweep_cmp::<129, 3>(f, exp),
        _ => panic!("harness: sweep width not instantiated"),
    }
}

/// All 2^32 f32 bit patterns, compared in a tight loop with a u128 oracle; mismatches are re-run through `exec`.
fn f32_sweep(r: &Runner, bits: usize) {
    r.universe(&format!("ALL 2^32 f32 bit patterns -> U{bits}"), bits, 1 << 12, |i, l| {
        let mut n = 0u64;
        let mut nt = 0u64;
        for lo in 0..(1u32 << 20) {
            let p = ((i as u32) << 20) | lo;
            let f = f32::from_bits(p);
            // u128 oracle: every finite f32 is < 2^128
            let exp: Result<u128, u8> = if f.is_nan() {
                Err(0)
            } else if f < 0.0 {
                Err(1)
            } else if f.is_infinite() {
                Err(2)
            } else {
                let b = p & 0x7fff_ffff;
                let e = (b >> 23) as i32;
                let frac = (b & 0x7f_ffff) as u128;
                let (mant, ex) = if e == 0 { (frac, -149) } else { (frac | (1 << 23), e - 150) };
                let v: u128 = if ex >= 0 { mant << ex } else if -ex > 40 { 0 } else { ((mant << 1) + (1u128 << (-ex))) >> (-ex + 1) };
                if bits >= 128 || v < (1u128 << bits) { Ok(v) } else { Err(2) }
            };
            let good = vharness::runner::guarded(|| sweep_one(bits, f, &exp)).unwrap_or(false);
            n += 1;
            if exp.is_err() || f.fract() != 0.0 {
                nt += 1;
            }
            if !good {
                // slow path: full model, recorded as a violation if it really disagrees
                let args = [V::F32(p)];
                for &op in FROM_F32 {
                    exec(l, bits, op, &args);
                }
            }
        }
        l.states(n);
        l.bulk("try_from_f32", n, nt, 0b0110_0000);
    });
}

fn main() {
    let (prop, tier, seed, replay_path) = args_env();
    if let Some(p) = replay_path {
        std::process::exit(replay(&p));
    }
    let r = Runner::new(if SWEEP { "mc_conv_sweep" } else { "mc_conv" }, &prop, &tier, seed);
    if SWEEP {
        r.assume("WIDTH SWEEP: the same checks instantiated at every width 0..=136 and within 2 of every limb boundary up to 1024 bits, on budgeted universes");
    }
    r.assume("x86_64, 64-bit usize, harness profile = release + debug-assertions + overflow-checks");
    r.assume("reference model: BigUint / exact integer arithmetic on IEEE-754 fields; no floating point in the oracle except std's exact u64->f64 casts of integers below 2^53 used to build inputs");
    match prop.as_str() {
        "C07" => c07(&r),
        "C08" => c08(&r),
        "C18" => c18(&r),
        _ => {
            eprintln!("mc_conv: unknown property '{prop}' (C07 C08 C18)");
            std::process::exit(2);
        }
    }
    std::process::exit(r.finish());
}
