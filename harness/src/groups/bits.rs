// Group `bits`: C05 (shifts, rotations), C06 (bitwise logic, bit access, counting).

use num_bigint::BigUint;
use num_traits::Zero;
use ruint::{Bits, Uint};
use vharness::*;

/// run `$e` with `$x` = the amount cast to the primitive type selected by the type code
macro_rules! by_ty {
    ($t:expr, $s:expr, |$x:ident| $e:expr) => {
        match $t {
            0 => { let $x = $s as usize; $e }
            1 => { let $x = $s as u8; $e }
            2 => { let $x = $s as u16; $e }
            3 => { let $x = $s as u32; $e }
            4 => { let $x = $s as u64; $e }
            5 => { let $x = $s as i8; $e }
            6 => { let $x = $s as i16; $e }
            7 => { let $x = $s as i32; $e }
            8 => { let $x = $s as i64; $e }
            9 => { let $x = $s as isize; $e }
            _ => panic!("harness: bad type code"),
        }
    };
}
const TY_NAMES: [&str; 10] = ["usize", "u8", "u16", "u32", "u64", "i8", "i16", "i32", "i64", "isize"];
const TY_MAX: [u128; 10] = [u64::MAX as u128, 255, 65535, u32::MAX as u128, u64::MAX as u128, 127, 32767, i32::MAX as u128, i64::MAX as u128, i64::MAX as u128];

define_ops! {
    // ---- C05 methods
    overflowing_shl = |a: U, s: N| a.overflowing_shl(s);
    checked_shl = |a: U, s: N| a.checked_shl(s);
    saturating_shl = |a: U, s: N| a.saturating_shl(s);
    wrapping_shl = |a: U, s: N| a.wrapping_shl(s);
    overflowing_shr = |a: U, s: N| a.overflowing_shr(s);
    checked_shr = |a: U, s: N| a.checked_shr(s);
    wrapping_shr = |a: U, s: N| a.wrapping_shr(s);
    arithmetic_shr = |a: U, s: N| a.arithmetic_shr(s);
    rotate_left = |a: U, s: N| a.rotate_left(s);
    rotate_right = |a: U, s: N| a.rotate_right(s);
    // ---- C05 operators with primitive amounts (t = type code, see TY_NAMES)
    shl_prim = |a: U, t: N, s: W| by_ty!(t, s, |x| a << x);
    shl_prim_ref = |a: U, t: N, s: W| by_ty!(t, s, |x| a << &x);
    shl_assign_prim = |a: U, t: N, s: W| by_ty!(t, s, |x| { a <<= x; a });
    shl_assign_prim_ref = |a: U, t: N, s: W| by_ty!(t, s, |x| { a <<= &x; a });
    shr_prim = |a: U, t: N, s: W| by_ty!(t, s, |x| a >> x);
    shr_prim_ref = |a: U, t: N, s: W| by_ty!(t, s, |x| a >> &x);
    shr_assign_prim = |a: U, t: N, s: W| by_ty!(t, s, |x| { a >>= x; a });
    shr_assign_prim_ref = |a: U, t: N, s: W| by_ty!(t, s, |x| { a >>= &x; a });
    // ---- C05 operators with Uint amounts
    shl_uint = |a: U, s: U| a << s;
    shl_uint_ref = |a: U, s: U| a << &s;
    shl_assign_uint = |a: U, s: U| { a <<= s; a };
    shl_assign_uint_ref = |a: U, s: U| { a <<= &s; a };
    shr_uint = |a: U, s: U| a >> s;
    shr_uint_ref = |a: U, s: U| a >> &s;
    shr_assign_uint = |a: U, s: U| { a >>= s; a };
    shr_assign_uint_ref = |a: U, s: U| { a >>= &s; a };
    // ---- C06
    not_m = |a: U| Uint::not(a);
    not_v = |a: U| !a;
    not_r = |a: U| !&a;
    // MEMORY LAYOUT: the same value at both addresses a u64-aligned type can have modulo 16, and two operands at different
    // ones; every result must equal the one computed on plain locals
    unary_layout = |a: U| { #[repr(C, align(16))] struct Off<T>(u64, T); #[repr(C, align(16))] struct Al<T>(T); let w = std::hint::black_box(Off(3, a)); let v = std::hint::black_box(Al(a)); let arr = std::hint::black_box([a, a, a]); let f = |x: &Uint<B, L>| (x.leading_zeros(), x.leading_ones(), x.trailing_zeros(), x.trailing_ones(), x.count_ones(), x.count_zeros(), (x.bit_len(), x.byte_len(), x.is_power_of_two(), x.reverse_bits(), !x, x.bit(B / 2), x.most_significant_bits())); let r = f(&a); (f(&w.1) == r, f(&v.0) == r, f(&arr[1]) == r, f(&arr[2]) == r) };
    binary_layout = |a: U, b: U| { #[repr(C, align(16))] struct Off<T>(u64, T); #[repr(C, align(16))] struct Al<T>(T); let x = std::hint::black_box(Off(3, a)); let y = std::hint::black_box(Al(b)); let bx = std::hint::black_box(Off(3, Bits::from(a))); let by = std::hint::black_box(Al(Bits::from(b))); let arr = std::hint::black_box([Bits::from(a), Bits::from(b), Bits::from(a)]); let (e_and, e_or, e_xor) = (a & b, a | b, a ^ b); let u1 = (&x.1 & &y.0, &x.1 | &y.0, &x.1 ^ &y.0) == (e_and, e_or, e_xor); let u2 = (&y.0 & &x.1, &y.0 | &x.1, &y.0 ^ &x.1) == (e_and, e_or, e_xor); let u3 = { let mut t = std::hint::black_box(Off(3, a)); t.1 &= &y.0; let mut s = std::hint::black_box(Off(3, a)); s.1 |= &y.0; let mut r = std::hint::black_box(Off(3, a)); r.1 ^= &y.0; (t.1, s.1, r.1) == (e_and, e_or, e_xor) }; let b1 = ((&bx.1 & &by.0).into_inner(), (&bx.1 | &by.0).into_inner(), (&bx.1 ^ &by.0).into_inner()) == (e_and, e_or, e_xor); let b2 = ((&arr[0] & &arr[1]).into_inner(), (&arr[1] | &arr[2]).into_inner(), (&arr[0] ^ &arr[1]).into_inner()) == (e_and, e_or, e_xor); let b3 = { let mut t = std::hint::black_box(Off(3, Bits::from(a))); t.1 &= &by.0; let mut s = std::hint::black_box(Off(3, Bits::from(a))); s.1 |= &by.0; let mut r = std::hint::black_box(Off(3, Bits::from(a))); r.1 ^= by.0; (t.1.into_inner(), s.1.into_inner(), r.1.into_inner()) == (e_and, e_or, e_xor) }; (u1, u2, u3, b1, b2, b3) };
    and_vv = |a: U, b: U| a & b;
    and_vr = |a: U, b: U| a & &b;
    and_rv = |a: U, b: U| &a & b;
    and_rr = |a: U, b: U| &a & &b;
    and_assign_v = |a: U, b: U| { a &= b; a };
    and_assign_r = |a: U, b: U| { a &= &b; a };
    or_vv = |a: U, b: U| a | b;
    or_vr = |a: U, b: U| a | &b;
    or_rv = |a: U, b: U| &a | b;
    or_rr = |a: U, b: U| &a | &b;
    or_assign_v = |a: U, b: U| { a |= b; a };
    or_assign_r = |a: U, b: U| { a |= &b; a };
    xor_vv = |a: U, b: U| a ^ b;
    xor_vr = |a: U, b: U| a ^ &b;
    xor_rv = |a: U, b: U| &a ^ b;
    xor_rr = |a: U, b: U| &a ^ &b;
    xor_assign_v = |a: U, b: U| { a ^= b; a };
    xor_assign_r = |a: U, b: U| { a ^= &b; a };
    // both operands are the SAME object (shortcuts keyed on pointer identity)
    and_alias = |a: U| &a & &a;
    or_alias = |a: U| &a | &a;
    xor_alias = |a: U| &a ^ &a;
    bit = |a: U, i: N| a.bit(i);
    set_bit = |a: U, i: N, v: BO| { a.set_bit(i, v); a };
    byte = |a: U, i: N| a.byte(i);
    checked_byte = |a: U, i: N| a.checked_byte(i);
    reverse_bits = |a: U| a.reverse_bits();
    leading_zeros = |a: U| a.leading_zeros();
    leading_ones = |a: U| a.leading_ones();
    trailing_zeros = |a: U| a.trailing_zeros();
    trailing_ones = |a: U| a.trailing_ones();
    count_ones = |a: U| a.count_ones();
    count_zeros = |a: U| a.count_zeros();
    bit_len = |a: U| a.bit_len();
    byte_len = |a: U| a.byte_len();
    most_significant_bits = |a: U| a.most_significant_bits();
    is_power_of_two = |a: U| a.is_power_of_two();
    next_power_of_two = |a: U| a.next_power_of_two();
    checked_next_power_of_two = |a: U| a.checked_next_power_of_two();
}

width_list!();

const W_EDGE_QUICK: &[usize] = &[63, 64, 65, 72, 127, 128, 129, 192, 200, 256, 257, 320, 384, 448, 512];
const W_EDGE: &[usize] = &[60, 63, 64, 65, 72, 120, 127, 128, 129, 191, 192, 193, 200, 250, 255, 256, 257, 320, 384, 511, 512, 513, 1024];

fn u(v: &BigUint, bits: usize) -> V {
    V::U(to_limbs(v, bits))
}
fn vu(l: &Limbs) -> V {
    V::U(l.clone())
}
fn maxv(bits: usize) -> V {
    V::U(max_limbs(bits))
}

fn model(bits: usize, op: Op, args: &[V]) -> Expect {
    use Op::*;
    let m = pow2(bits);
    let a = big(args[0].limbs());
    let zero = || u(&BigUint::zero(), bits);
    match op {
        overflowing_shl | checked_shl | saturating_shl | wrapping_shl | shl_prim | shl_prim_ref | shl_assign_prim | shl_assign_prim_ref | shl_uint | shl_uint_ref | shl_assign_uint
        | shl_assign_uint_ref => {
            // amount as an integer of any magnitude
            let s: BigUint = match op {
                shl_uint | shl_uint_ref | shl_assign_uint | shl_assign_uint_ref => big(args[1].limbs()),
                shl_prim | shl_prim_ref | shl_assign_prim | shl_assign_prim_ref => BigUint::from(args[2].as_n()),
                _ => BigUint::from(args[1].as_n()),
            };
            let huge = s > BigUint::from(bits as u64 + 200_000);
            let (val, o) = if huge || a.is_zero() {
                (BigUint::zero(), !a.is_zero())
            } else {
                let sh = &a << s.iter_u64_digits().next().unwrap_or(0) as usize;
                (&sh % &m, sh >= m)
            };
            let nt = s >= BigUint::from(64u32) || o;
            match op {
                overflowing_shl => is(V::T(vec![u(&val, bits), V::B(o)])),
                checked_shl => is(if o { V::None } else { V::some(u(&val, bits)) }),
                saturating_shl => is(if o { maxv(bits) } else { u(&val, bits) }),
                _ => is(u(&val, bits)),
            }
            .nt(nt)
        }
        overflowing_shr | checked_shr | wrapping_shr | shr_prim | shr_prim_ref | shr_assign_prim | shr_assign_prim_ref | shr_uint | shr_uint_ref | shr_assign_uint | shr_assign_uint_ref => {
            let s: BigUint = match op {
                shr_uint | shr_uint_ref | shr_assign_uint | shr_assign_uint_ref => big(args[1].limbs()),
                shr_prim | shr_prim_ref | shr_assign_prim | shr_assign_prim_ref => BigUint::from(args[2].as_n()),
                _ => BigUint::from(args[1].as_n()),
            };
            let huge = s > BigUint::from(bits as u64 + 200_000);
            let (val, o) = if huge || a.is_zero() {
                (BigUint::zero(), !a.is_zero())
            } else {
                let k = s.iter_u64_digits().next().unwrap_or(0) as usize;
                let v = &a >> k;
                let o = (&v << k) != a;
                (v, o)
            };
            let nt = s >= BigUint::from(64u32) || o;
            match op {
                overflowing_shr => is(V::T(vec![u(&val, bits), V::B(o)])),
                checked_shr => is(if o { V::None } else { V::some(u(&val, bits)) }),
                _ => is(u(&val, bits)),
            }
            .nt(nt)
        }
        arithmetic_shr => {
            let s = args[1].as_n() as usize;
            if bits == 0 {
                return is(zero());
            }
            let sign = a.bit(bits as u64 - 1);
            let mut e = if s > bits + 64 { BigUint::zero() } else { &a >> s };
            if sign {
                // ones in positions [bits - min(s,bits), bits)
                let k = s.min(bits);
                let ones = (pow2(k) - 1u32) << (bits - k);
                e |= ones;
            }
            is(u(&e, bits)).nt(sign && s > 0)
        }
        rotate_left | rotate_right => {
            let s = args[1].as_n() as usize;
            if bits == 0 {
                return is(zero());
            }
            let k = if op == rotate_left { s % bits } else { (bits - s % bits) % bits };
            let rot = ((&a << k) | (&a >> (bits - k))) % &m;
            is(u(&rot, bits)).nt(k != 0)
        }
        not_m | not_v | not_r => is(u(&(&m - 1u32 - &a), bits)).nt(true),
        unary_layout => is(V::T(vec![V::B(true); 4])).nt(true),
        binary_layout => is(V::T(vec![V::B(true); 6])).nt(true),
        and_vv | and_vr | and_rv | and_rr | and_assign_v | and_assign_r => is(u(&(&a & big(args[1].limbs())), bits)).nt(true),
        or_vv | or_vr | or_rv | or_rr | or_assign_v | or_assign_r => is(u(&(&a | big(args[1].limbs())), bits)).nt(true),
        and_alias | or_alias => is(u(&a, bits)).nt(true),
        xor_alias => is(zero()).nt(true),
        xor_vv | xor_vr | xor_rv | xor_rr | xor_assign_v | xor_assign_r => is(u(&(&a ^ big(args[1].limbs())), bits)).nt(true),
        bit => {
            let i = args[1].as_n() as usize;
            is(V::B(i < bits && a.bit(i as u64))).nt(i >= 64 || i >= bits)
        }
        set_bit => {
            let i = args[1].as_n() as usize;
            let v = args[2].as_b();
            let mut e = a.clone();
            if i < bits {
                e.set_bit(i as u64, v);
            }
            is(u(&e, bits)).nt(i >= 64 || i >= bits)
        }
        byte | checked_byte => {
            let i = args[1].as_n() as usize;
            let nbytes = (bits + 7) / 8;
            if i < nbytes {
                let b = ((&a >> (8 * i)) % 256u32).iter_u64_digits().next().unwrap_or(0);
                is(if op == byte { V::N(b as u128) } else { V::some(V::N(b as u128)) }).nt(i >= 8)
            } else {
                is(if op == byte { V::Panic } else { V::None }).nt(true)
            }
        }
        reverse_bits => {
            let mut rev = BigUint::zero();
            for i in 0..bits {
                if a.bit(i as u64) {
                    rev.set_bit((bits - 1 - i) as u64, true);
                }
            }
            is(u(&rev, bits)).nt(!a.is_zero())
        }
        leading_zeros => is(V::n(bits - a.bits() as usize)).nt(true),
        leading_ones => {
            let nb = &m - 1u32 - &a;
            is(V::n(bits - nb.bits() as usize)).nt(true)
        }
        trailing_zeros => is(V::n(a.trailing_zeros().map_or(bits, |x| x as usize))).nt(true),
        trailing_ones => {
            let nb = &m - 1u32 - &a;
            is(V::n(nb.trailing_zeros().map_or(bits, |x| x as usize))).nt(true)
        }
        count_ones => is(V::n(a.count_ones() as usize)).nt(true),
        count_zeros => is(V::n(bits - a.count_ones() as usize)).nt(true),
        bit_len => is(V::n(a.bits() as usize)).nt(true),
        byte_len => is(V::n((a.bits() as usize + 7) / 8)).nt(true),
        most_significant_bits => {
            let bl = a.bits() as usize;
            let (b, e) = if bl <= 64 { (a.clone(), 0) } else { (&a >> (bl - 64), bl - 64) };
            is(V::T(vec![V::N(b.iter_u64_digits().next().unwrap_or(0) as u128), V::n(e)])).nt(bl > 64)
        }
        is_power_of_two => is(V::B(a.count_ones() == 1)).nt(true),
        next_power_of_two | checked_next_power_of_two => {
            let e = if a.count_ones() == 1 {
                Some(a.clone())
            } else {
                let p = pow2(a.bits() as usize);
                if p < m { Some(p) } else { None }
            };
            match (op, e) {
                (next_power_of_two, Some(p)) => is(u(&p, bits)),
                // overflow of the unchecked form: no value is defined by the binary expansion (the checked form must say None)
                (next_power_of_two, None) => dont_care(),
                (_, Some(p)) => is(V::some(u(&p, bits))),
                (_, None) => is(V::None),
            }
            .nt(true)
        }
    }
}

group_glue!();

const SH_METHODS: &[Op] = &[
    Op::overflowing_shl, Op::checked_shl, Op::saturating_shl, Op::wrapping_shl, Op::overflowing_shr, Op::checked_shr, Op::wrapping_shr,
    Op::arithmetic_shr, Op::rotate_left, Op::rotate_right,
];
const SH_PRIM: &[Op] = &[
    Op::shl_prim, Op::shl_prim_ref, Op::shl_assign_prim, Op::shl_assign_prim_ref, Op::shr_prim, Op::shr_prim_ref, Op::shr_assign_prim,
    Op::shr_assign_prim_ref,
];
const SH_UINT: &[Op] = &[
    Op::shl_uint, Op::shl_uint_ref, Op::shl_assign_uint, Op::shl_assign_uint_ref, Op::shr_uint, Op::shr_uint_ref, Op::shr_assign_uint,
    Op::shr_assign_uint_ref,
];

fn values_for(r: &Runner, bits: usize, budget: usize) -> (Vec<Limbs>, String) {
    let sl = salt(r.seed);
    pick(bits, budget, if nlimbs(bits) <= 3 { &sl } else { &[] })
}

fn c05(r: &Runner) {
    r.set_rule("cases = (width, entry point, value, amount); values: S(B) for B <= 10 (12 thorough), L/R/P(B) at edge widths; amounts: EVERY s in [0, BITS + 64*LIMBS + 1] for the methods, every such s that fits the amount type for the 10 primitive-typed operator overloads (x value/reference x plain/assign), and Uint-typed amounts {small amounts} + every value of L(B;A3)+R(B) (any magnitude, incl. >= 2^64 and >= 2^128). non-trivial = amount >= 64 (whole limbs move) or a non-zero bit is shifted out");
    let mut widths: Vec<usize> = (0..=if r.is_thorough() { 12 } else { 10 }).collect();
    widths.extend(if r.is_thorough() { W_EDGE.to_vec() } else { W_EDGE_QUICK.to_vec() });
    if !r.is_thorough() {
        widths.push(1024);
    }
    // limb counts 17..=24: two of them on every change, all eight in the thorough tier
    widths.extend(if r.is_thorough() { W_LADDER.to_vec() } else { vec![1150, 1471] });
    if SWEEP {
        widths = WIDTHS.to_vec();
    }
    for bits in widths {
        let smax = bits + 64 * nlimbs(bits) + 1;
        // budget: values x amounts x 10 methods stays below ~3*10^7 (quick) / 3*10^8 (thorough) per width
        let per = if SWEEP { 400_000 } else if r.is_thorough() { 30_000_000 } else if bits > 1024 { 1_500_000 } else { 3_000_000 };
        let (vals, d) = values_for(r, bits, (per / (smax + 1)).max(8));
        r.universe(&format!("{d} x s in 0..={smax} (methods)"), bits, vals.len(), |i, l| {
            let a = vu(&vals[i]);
            for s in 0..=smax {
                let args = [a.clone(), V::n(s)];
                l.states(1);
                for &op in SH_METHODS {
                    exec(l, bits, op, &args);
                }
            }
        });
        // amounts far beyond the width, up to usize::MAX (amount arithmetic such as bit_len + s or s as u32 must not wrap)
        {
            let mut hs: Vec<usize> = vec![(1 << 16) + 3, (1 << 31) - 1, 1 << 31, (1 << 32) - 1, 1 << 32, (1 << 32) + 1, (1 << 32) + 5, (1 << 32) + bits / 2, 3 << 32, (1 << 40) + 63, (1 << 63) - 1, 1 << 63, (1 << 63) + 1, usize::MAX - 64 * nlimbs(bits), usize::MAX - bits, usize::MAX - bits / 2, usize::MAX - 64, usize::MAX - 1, usize::MAX];
            for k in [1usize, 2, 63, 64, 65] {
                hs.push(usize::MAX - bits.saturating_sub(k));
                hs.push((1usize << 32) * k + bits.saturating_sub(1));
            }
            hs.sort();
            hs.dedup();
            let hv = if bits <= 6 { small_all(bits) } else { pow2_sparse(bits) };
            r.universe(&format!("{} values x {} amounts far beyond the width, up to usize::MAX (methods)", hv.len(), hs.len()), bits, hv.len(), |i, l| {
                let a = vu(&hv[i]);
                for &s in &hs {
                    let args = [a.clone(), V::n(s)];
                    l.states(1);
                    for &op in SH_METHODS {
                        exec(l, bits, op, &args);
                    }
                }
            });
        }
        // operator overloads: value set = P(B) (every single-bit position and its neighbours) + extremes
        let pv = if bits <= 6 { small_all(bits) } else if 30 * bits * smax > per { pow2_sparse(bits) } else { pow2_nbhd(bits) };
        r.universe(&format!("{} values x 10 amount types x s in 0..={smax} (operators)", pv.len()), bits, pv.len(), |i, l| {
            let a = vu(&pv[i]);
            for s in 0..=smax {
                for t in 0..10usize {
                    if s as u128 > TY_MAX[t] {
                        continue;
                    }
                    let args = [a.clone(), V::n(t), V::N(s as u128)];
                    l.states(1);
                    for &op in SH_PRIM {
                        exec(l, bits, op, &args);
                    }
                }
            }
            // type maxima: amounts far beyond the width
            for t in 0..10usize {
                let args = [a.clone(), V::n(t), V::N(TY_MAX[t])];
                l.states(1);
                for &op in SH_PRIM {
                    exec(l, bits, op, &args);
                }
            }
        });
        // Uint-typed amounts
        if bits > 0 {
            let mp = pow2(bits);
            let mut am: Vec<Limbs> = vec![];
            for s in [0usize, 1, 2, 63, 64, 65, bits - 1, bits, bits + 1, 64 * nlimbs(bits) - 1, 64 * nlimbs(bits), 64 * nlimbs(bits) + 1, bits / 2] {
                let b = BigUint::from(s);
                if b < mp {
                    am.push(to_limbs(&b, bits));
                }
            }
            if bits <= 8 {
                am.extend(small_all(bits));
            } else {
                am.extend(wide(bits, A3, true, &[]).0);
                // k * 2^(64 j) + small: high limbs set, low limb a small in-range amount
                for j in 1..nlimbs(bits) {
                    for low in [0u64, 1, 5] {
                        let mut l = vec![0u64; nlimbs(bits)];
                        l[0] = low;
                        l[j] = 1;
                        if l[nlimbs(bits) - 1] & !mask(bits) == 0 {
                            am.push(l);
                        }
                    }
                }
            }
            am.sort();
            am.dedup();
            let pv2 = if bits <= 8 { small_all(bits) } else if 3 * bits * am.len() > per { pow2_sparse(bits) } else { pow2_nbhd(bits) };
            r.universe(&format!("{} values x {} Uint-typed amounts", pv2.len(), am.len()), bits, pv2.len(), |i, l| {
                let a = vu(&pv2[i]);
                for s in &am {
                    let args = [a.clone(), vu(s)];
                    l.states(1);
                    for &op in SH_UINT {
                        exec(l, bits, op, &args);
                    }
                }
            });
        } else {
            r.universe_seq("U0 Uint-typed amounts", 0, |l| {
                let args = [V::U(vec![]), V::U(vec![])];
                l.states(1);
                for &op in SH_UINT {
                    exec(l, 0, op, &args);
                }
            });
        }
    }
    r.extra("amount_types", serde_json::json!(TY_NAMES));
}

const C06_UN: &[Op] = &[
    Op::not_m, Op::not_v, Op::not_r, Op::reverse_bits, Op::leading_zeros, Op::leading_ones, Op::trailing_zeros, Op::trailing_ones, Op::count_ones,
    Op::count_zeros, Op::bit_len, Op::byte_len, Op::most_significant_bits, Op::is_power_of_two, Op::next_power_of_two, Op::checked_next_power_of_two,
    Op::and_alias, Op::or_alias, Op::xor_alias, Op::unary_layout,
];
/// one width per limb count 17..=24 (every residue of the limb count modulo 2, 4 and 8 above 16 limbs: tails of unrolled loops)
const W_LADDER: &[usize] = &[1088, 1150, 1216, 1280, 1344, 1408, 1471, 1536];
const C06_BIN: &[Op] = &[
    Op::and_vv, Op::and_vr, Op::and_rv, Op::and_rr, Op::and_assign_v, Op::and_assign_r, Op::or_vv, Op::or_vr, Op::or_rv, Op::or_rr, Op::or_assign_v,
    Op::or_assign_r, Op::xor_vv, Op::xor_vr, Op::xor_rv, Op::xor_rr, Op::xor_assign_v, Op::xor_assign_r, Op::binary_layout,
];

fn c06(r: &Runner) {
    r.set_rule("unary operations (incl. &x op &x on one object) on every value of S(B), B <= 16, and of L/R/P(B) at edge widths, 1024/4096 and one width per limb count 17..=24; binary logic on all pairs of S(B), B <= 8 (10 thorough), and of the wide universes; indexed accessors on every index in [0, BITS+64] (bit, set_bit with both values) resp. [0, BYTES+8] (byte, checked_byte). every case is counted as non-trivial except in-range low-limb index reads");
    for bits in 0..=(if SWEEP { 10usize } else { 16 }) {
        let u = small_all(bits);
        r.universe(&format!("S({bits}) unary"), bits, u.len(), |i, l| {
            let args = [vu(&u[i])];
            l.states(1);
            for &op in C06_UN {
                exec(l, bits, op, &args);
            }
        });
        if bits <= if r.is_thorough() { 12 } else { 10 } {
            indexed(r, bits, &u, &format!("S({bits})"));
        }
    }
    for bits in 0..=if r.is_thorough() { 10 } else { 8usize } {
        let u = small_all(bits);
        r.universe(&format!("S({bits})^2 logic"), bits, u.len(), |i, l| {
            for b in &u {
                let args = [vu(&u[i]), vu(b)];
                l.states(1);
                for &op in C06_BIN {
                    exec(l, bits, op, &args);
                }
            }
        });
    }
    let mut ws = if r.is_thorough() { W_EDGE.to_vec() } else { W_EDGE_QUICK.to_vec() };
    if !ws.contains(&1024) {
        ws.push(1024);
    }
    ws.push(4096);
    ws.extend_from_slice(W_LADDER);
    if SWEEP {
        ws = WIDTHS.iter().copied().filter(|w| *w > 10).collect();
    }
    for bits in ws {
        let per = if SWEEP { 300_000 } else if r.is_thorough() { 20_000_000 } else { 2_000_000 };
        let (vals, d) = values_for(r, bits, if SWEEP { 1500 } else if r.is_thorough() { 200_000 } else { 20_000 });
        r.universe(&format!("{d} unary"), bits, vals.len(), |i, l| {
            let args = [vu(&vals[i])];
            l.states(1);
            for &op in C06_UN {
                exec(l, bits, op, &args);
            }
        });
        let (bv, bd) = values_for(r, bits, ((per / 18) as f64).sqrt() as usize);
        r.universe(&format!("({bd})^2 logic"), bits, bv.len(), |i, l| {
            for b in &bv {
                let args = [vu(&bv[i]), vu(b)];
                l.states(1);
                for &op in C06_BIN {
                    exec(l, bits, op, &args);
                }
            }
        });
        let (iv, id) = values_for(r, bits, (per / (3 * (bits + 65))).max(8));
        indexed(r, bits, &iv, &id);
        let (rv, rd) = values_for(r, bits, if SWEEP { 200 } else if r.is_thorough() { 40_000 } else { 8_000 });
        r.universe(&format!("{rd} x related operands: logic"), bits, rv.len(), |i, l| {
            let a = vu(&rv[i]);
            for b in related(bits, &rv[i]) {
                l.states(1);
                for &op in C06_BIN {
                    exec(l, bits, op, &[a.clone(), vu(&b)]);
                }
            }
        });
    }
}

fn indexed(r: &Runner, bits: usize, vals: &[Limbs], d: &str) {
    r.universe(&format!("{d} x index 0..={}", bits + 64), bits, vals.len(), |i, l| {
        let a = vu(&vals[i]);
        for idx in 0..=bits + 64 {
            l.states(1);
            exec(l, bits, Op::bit, &[a.clone(), V::n(idx)]);
            exec(l, bits, Op::set_bit, &[a.clone(), V::n(idx), V::B(false)]);
            exec(l, bits, Op::set_bit, &[a.clone(), V::n(idx), V::B(true)]);
        }
        for idx in 0..=(bits + 7) / 8 + 8 {
            l.states(1);
            exec(l, bits, Op::byte, &[a.clone(), V::n(idx)]);
            exec(l, bits, Op::checked_byte, &[a.clone(), V::n(idx)]);
        }
        // indices far out of range (index arithmetic such as 8 * index must not wrap)
        for idx in [1usize << 32, (1 << 58) - 1, 1 << 58, (1 << 61) - 1, 1 << 61, (1 << 61) + 1, 1 << 62, 1 << 63, (1 << 63) + 1, usize::MAX / 8, usize::MAX / 8 + 1, usize::MAX - 64, usize::MAX - 1, usize::MAX] {
            l.states(1);
            exec(l, bits, Op::bit, &[a.clone(), V::n(idx)]);
            exec(l, bits, Op::set_bit, &[a.clone(), V::n(idx), V::B(true)]);
            exec(l, bits, Op::set_bit, &[a.clone(), V::n(idx), V::B(false)]);
            exec(l, bits, Op::byte, &[a.clone(), V::n(idx)]);
            exec(l, bits, Op::checked_byte, &[a.clone(), V::n(idx)]);
        }
    });
}

fn main() {
    let (prop, tier, seed, replay_path) = args_env();
    if let Some(p) = replay_path {
        std::process::exit(replay(&p));
    }
    let r = Runner::new(if SWEEP { "mc_bits_sweep" } else { "mc_bits" }, &prop, &tier, seed);
    if SWEEP {
        r.assume("WIDTH SWEEP: the same checks instantiated at every width 0..=136 and within 2 of every limb boundary up to 1024 bits, on budgeted universes");
    }
    r.assume("x86_64, 64-bit usize, harness profile = release + debug-assertions + overflow-checks");
    r.assume("reference model: BigUint binary expansion; values cross the boundary only as raw limbs");
    r.assume("negative amounts of signed amount types are outside the property and are not explored");
    match prop.as_str() {
        "C05" => c05(&r),
        "C06" => c06(&r),
        _ => {
            eprintln!("mc_bits: unknown property '{prop}' (C05 C06)");
            std::process::exit(2);
        }
    }
    std::process::exit(r.finish());
}
