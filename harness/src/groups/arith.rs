// Group `arith`: C01 (add/sub/neg), C02 (mul), C03 (div), C10 (modular), C13 (pow/log/root).

use num_bigint::BigUint;
use num_integer::Integer;
use num_traits::{One, Zero};
use ruint::Uint;
use vharness::*;

define_ops! {
    // ---- C01
    overflowing_add = |a: U, b: U| a.overflowing_add(b);
    checked_add = |a: U, b: U| a.checked_add(b);
    saturating_add = |a: U, b: U| a.saturating_add(b);
    wrapping_add = |a: U, b: U| a.wrapping_add(b);
    overflowing_sub = |a: U, b: U| a.overflowing_sub(b);
    checked_sub = |a: U, b: U| a.checked_sub(b);
    saturating_sub = |a: U, b: U| a.saturating_sub(b);
    wrapping_sub = |a: U, b: U| a.wrapping_sub(b);
    abs_diff = |a: U, b: U| a.abs_diff(b);
    overflowing_neg = |a: U| a.overflowing_neg();
    checked_neg = |a: U| a.checked_neg();
    wrapping_neg = |a: U| a.wrapping_neg();
    neg_v = |a: U| -a;
    neg_r = |a: U| -&a;
    add_vv = |a: U, b: U| a + b;
    add_vr = |a: U, b: U| a + &b;
    add_rv = |a: U, b: U| &a + b;
    add_rr = |a: U, b: U| &a + &b;
    add_assign_v = |a: U, b: U| { a += b; a };
    add_assign_r = |a: U, b: U| { a += &b; a };
    sub_vv = |a: U, b: U| a - b;
    sub_vr = |a: U, b: U| a - &b;
    sub_rv = |a: U, b: U| &a - b;
    sub_rr = |a: U, b: U| &a - &b;
    sub_assign_v = |a: U, b: U| { a -= b; a };
    sub_assign_r = |a: U, b: U| { a -= &b; a };
    sum_v = |s: US| s.iter().copied().sum::<Uint<B, L>>();
    sum_r = |s: US| s.iter().sum::<Uint<B, L>>();
    // the same through iterators that report no useful size_hint: (0, None) and (0, Some(n))
    sum_v_nh = |s: US| NoHint(s.iter().copied()).sum::<Uint<B, L>>();
    sum_r_nh = |s: US| NoHint(s.iter()).sum::<Uint<B, L>>();
    sum_v_f = |s: US| s.iter().copied().filter(|_| true).sum::<Uint<B, L>>();
    // a non-fused iterator that answers None once before item k: the sum ends there and the rest stays in the iterator
    sum_nf = |s: US, k: N| { let mut it = Gap::new(s.iter().copied(), k); let a = it.by_ref().sum::<Uint<B, L>>(); let rest = it.count(); let mut it2 = Gap::new(s.iter(), k); let b = it2.by_ref().sum::<Uint<B, L>>(); (a, rest, b, it2.count()) };
    // both operands are the SAME object
    add_alias = |a: U| &a + &a;
    sub_alias = |a: U| &a - &a;
    // ---- C02
    overflowing_mul = |a: U, b: U| a.overflowing_mul(b);
    checked_mul = |a: U, b: U| a.checked_mul(b);
    saturating_mul = |a: U, b: U| a.saturating_mul(b);
    wrapping_mul = |a: U, b: U| a.wrapping_mul(b);
    mul_vv = |a: U, b: U| a * b;
    mul_vr = |a: U, b: U| a * &b;
    mul_rv = |a: U, b: U| &a * b;
    mul_rr = |a: U, b: U| &a * &b;
    mul_assign_v = |a: U, b: U| { a *= b; a };
    mul_assign_r = |a: U, b: U| { a *= &b; a };
    inv_ring = |a: U| a.inv_ring();
    product_v = |s: US| s.iter().copied().product::<Uint<B, L>>();
    product_r = |s: US| s.iter().product::<Uint<B, L>>();
    product_v_nh = |s: US| NoHint(s.iter().copied()).product::<Uint<B, L>>();
    product_r_nh = |s: US| NoHint(s.iter()).product::<Uint<B, L>>();
    product_v_f = |s: US| s.iter().copied().filter(|_| true).product::<Uint<B, L>>();
    product_nf = |s: US, k: N| { let mut it = Gap::new(s.iter().copied(), k); let a = it.by_ref().product::<Uint<B, L>>(); let rest = it.count(); let mut it2 = Gap::new(s.iter(), k); let b = it2.by_ref().product::<Uint<B, L>>(); (a, rest, b, it2.count()) };
    mul_alias = |a: U| &a * &a;
    // ---- C03
    div_rem = |a: U, b: U| a.div_rem(b);
    div_vv = |a: U, b: U| a / b;
    div_vr = |a: U, b: U| a / &b;
    div_rv = |a: U, b: U| &a / b;
    div_rr = |a: U, b: U| &a / &b;
    div_assign_v = |a: U, b: U| { a /= b; a };
    div_assign_r = |a: U, b: U| { a /= &b; a };
    rem_vv = |a: U, b: U| a % b;
    rem_vr = |a: U, b: U| a % &b;
    rem_rv = |a: U, b: U| &a % b;
    rem_rr = |a: U, b: U| &a % &b;
    rem_assign_v = |a: U, b: U| { a %= b; a };
    rem_assign_r = |a: U, b: U| { a %= &b; a };
    div_alias = |a: U| &a / &a;
    rem_alias = |a: U| &a % &a;
    wrapping_div = |a: U, b: U| a.wrapping_div(b);
    wrapping_rem = |a: U, b: U| a.wrapping_rem(b);
    checked_div = |a: U, b: U| a.checked_div(b);
    checked_rem = |a: U, b: U| a.checked_rem(b);
    div_ceil = |a: U, b: U| a.div_ceil(b);
    next_multiple_of = |a: U, b: U| a.next_multiple_of(b);
    checked_next_multiple_of = |a: U, b: U| a.checked_next_multiple_of(b);
    // ---- C10
    reduce_mod = |a: U, m: U| a.reduce_mod(m);
    add_mod = |a: U, b: U, m: U| a.add_mod(b, m);
    mul_mod = |a: U, b: U, m: U| a.mul_mod(b, m);
    pow_mod = |a: U, e: U, m: U| a.pow_mod(e, m);
    inv_mod = |a: U, m: U| a.inv_mod(m);
    // ---- C13
    pow = |a: U, e: U| a.pow(e);
    wrapping_pow = |a: U, e: U| a.wrapping_pow(e);
    overflowing_pow = |a: U, e: U| a.overflowing_pow(e);
    checked_pow = |a: U, e: U| a.checked_pow(e);
    saturating_pow = |a: U, e: U| a.saturating_pow(e);
    log = |a: U, b: U| a.log(b);
    log2 = |a: U| a.log2();
    log10 = |a: U| a.log10();
    checked_log = |a: U, b: U| a.checked_log(b);
    checked_log2 = |a: U| a.checked_log2();
    checked_log10 = |a: U| a.checked_log10();
    root = |a: U, d: N| a.root(d);
}

width_list!();

const W_EDGE_QUICK: &[usize] = &[17, 33, 39, 40, 63, 64, 65, 72, 127, 128, 129, 192, 200, 256, 257, 320, 384, 448, 512];
const W_EDGE: &[usize] = &[17, 24, 31, 32, 33, 39, 40, 60, 63, 64, 65, 72, 120, 127, 128, 129, 191, 192, 193, 200, 250, 255, 256, 257, 320, 384, 511, 512, 513];

fn u(v: &BigUint, bits: usize) -> V {
    V::U(to_limbs(v, bits))
}
fn wrap(v: &BigUint, bits: usize) -> V {
    V::U(to_limbs(&(v % pow2(bits)), bits))
}
fn maxv(bits: usize) -> V {
    V::U(max_limbs(bits))
}

/// a^e compared with 2^bits without forming huge numbers: returns (a^e mod 2^bits, a^e >= 2^bits).
fn pow_model(a: &BigUint, e: &BigUint, bits: usize) -> (BigUint, bool) {
    let m = pow2(bits);
    if bits == 0 {
        return (BigUint::zero(), false);
    }
    let val = a.modpow(e, &m);
    let ovf = if a.is_zero() || a.is_one() || e.is_zero() {
        false
    } else if e.bits() > 32 || (a.bits() - 1) * e.iter_u64_digits().next().unwrap_or(0) >= bits as u64 {
        true // a >= 2, so a^e >= 2^((bitlen-1)*e) >= 2^bits
    } else {
        // a^e < 2^(bitlen*e) and (bitlen-1)*e < bits: at most ~2*bits+e bits, cheap to form
        let ex = e.iter_u32_digits().next().unwrap_or(0);
        a.pow(ex) >= m
    };
    (val, ovf)
}

/// floor(log_b(v)) by repeated multiplication, v >= 1, b >= 2.
fn log_model(v: &BigUint, b: &BigUint) -> u128 {
    let mut k = 0u128;
    let mut p = b.clone();
    while &p <= v {
        p *= b;
        k += 1;
    }
    k
}

/// compare r^d with v without forming numbers much larger than v
fn pow_le(r: &BigUint, d: usize, v: &BigUint) -> bool {
    // returns r^d <= v
    if r.is_zero() {
        return true;
    }
    if r.is_one() {
        return v >= &BigUint::one();
    }
    if (r.bits() - 1) as u128 * d as u128 >= v.bits() as u128 {
        return false; // r^d >= 2^((bitlen-1)*d) >= 2^bits(v) > v
    }
    let mut p = BigUint::one();
    for _ in 0..d {
        p *= r;
        if &p > v {
            return false;
        }
    }
    true
}
fn root_model(v: &BigUint, d: usize) -> BigUint {
    // floor(v^(1/d)) by bisection on integers
    if v.is_zero() {
        return BigUint::zero();
    }
    if d as u64 >= v.bits() {
        // 1 <= v < 2^d: the root is 1 (also keeps the bisection bounds below from overflowing for huge degrees)
        return BigUint::one();
    }
    if v.bits() > 20_000 {
        // giant values: bisection would need tens of thousands of big multiplications; num-bigint's own root, verified
        let r = v.nth_root(d as u32);
        assert!(pow_le(&r, d, v) && !pow_le(&(&r + 1u32), d, v), "harness: nth_root is inconsistent");
        return r;
    }
    let mut lo = BigUint::one(); // lo^d <= v
    let mut hi = pow2((v.bits() as usize + d - 1) / d + 1); // hi^d > v
    while &hi - &lo > BigUint::one() {
        let mid = (&lo + &hi) >> 1;
        if pow_le(&mid, d, v) {
            lo = mid;
        } else {
            hi = mid;
        }
    }
    lo
}

fn carries(a: &[u64], b: &[u64]) -> bool {
    // does a carry (or borrow) cross a limb boundary in a+b or a-b?
    let mut c = false;
    let mut bo = false;
    let mut any = false;
    for i in 0..a.len() {
        let (s, c1) = a[i].overflowing_add(b[i]);
        let (_, c2) = s.overflowing_add(c as u64);
        c = c1 | c2;
        let (d, b1) = a[i].overflowing_sub(b[i]);
        let (_, b2) = d.overflowing_sub(bo as u64);
        bo = b1 | b2;
        if i + 1 < a.len() {
            any |= c | bo;
        }
    }
    any
}

fn model(bits: usize, op: Op, args: &[V]) -> Expect {
    use Op::*;
    let m = pow2(bits);
    let a = || big(args[0].limbs());
    let b = || big(args[1].limbs());
    let c = || big(args[2].limbs());
    let twice = || [args[0].clone(), args[0].clone()];
    match op {
        add_alias => model(bits, add_rr, &twice()),
        sub_alias => model(bits, sub_rr, &twice()),
        mul_alias => model(bits, mul_rr, &twice()),
        div_alias => model(bits, div_rr, &twice()).nt(true),
        rem_alias => model(bits, rem_rr, &twice()).nt(true),
        overflowing_add | checked_add | saturating_add | wrapping_add | add_vv | add_vr | add_rv | add_rr | add_assign_v | add_assign_r => {
            let s = a() + b();
            let o = s >= m;
            let nt = o || carries(args[0].limbs(), args[1].limbs());
            match op {
                overflowing_add => is(V::T(vec![wrap(&s, bits), V::B(o)])),
                checked_add => is(if o { V::None } else { V::some(u(&s, bits)) }),
                saturating_add => is(if o { maxv(bits) } else { u(&s, bits) }),
                _ => is(wrap(&s, bits)),
            }
            .nt(nt)
        }
        overflowing_sub | checked_sub | saturating_sub | wrapping_sub | abs_diff | sub_vv | sub_vr | sub_rv | sub_rr | sub_assign_v | sub_assign_r => {
            let (a, b) = (a(), b());
            let o = a < b;
            let d = if o { &m + &a - &b } else { &a - &b };
            let nt = o || carries(args[0].limbs(), args[1].limbs());
            match op {
                overflowing_sub => is(V::T(vec![u(&d, bits), V::B(o)])),
                checked_sub => is(if o { V::None } else { V::some(u(&d, bits)) }),
                saturating_sub => is(if o { u(&BigUint::zero(), bits) } else { u(&d, bits) }),
                abs_diff => is(u(&if o { &b - &a } else { &a - &b }, bits)),
                _ => is(u(&d, bits)),
            }
            .nt(nt)
        }
        overflowing_neg | checked_neg | wrapping_neg | neg_v | neg_r => {
            let a = a();
            let o = !a.is_zero();
            let d = if o { &m - &a } else { BigUint::zero() };
            match op {
                overflowing_neg => is(V::T(vec![u(&d, bits), V::B(o)])),
                checked_neg => is(if o { V::None } else { V::some(u(&d, bits)) }),
                _ => is(u(&d, bits)),
            }
            .nt(o)
        }
        sum_v | sum_r | sum_v_nh | sum_r_nh | sum_v_f => {
            let mut s = BigUint::zero();
            for x in args[0].as_l() {
                s += big(x.limbs());
            }
            is(wrap(&s, bits)).nt(s >= m)
        }
        overflowing_mul | checked_mul | saturating_mul | wrapping_mul | mul_vv | mul_vr | mul_rv | mul_rr | mul_assign_v | mul_assign_r => {
            let p = a() * b();
            let o = p >= m;
            let zl = |l: &[u64]| l.iter().any(|x| *x == 0) && l.iter().any(|x| *x != 0);
            let nt = o || zl(args[0].limbs()) || zl(args[1].limbs());
            match op {
                overflowing_mul => is(V::T(vec![wrap(&p, bits), V::B(o)])),
                checked_mul => is(if o { V::None } else { V::some(u(&p, bits)) }),
                saturating_mul => is(if o { maxv(bits) } else { u(&p, bits) }),
                _ => is(wrap(&p, bits)),
            }
            .nt(nt)
        }
        inv_ring => {
            let a = a();
            if bits > 0 && a.bit(0) {
                let inv = a.modinv(&m).expect("harness: odd value has an inverse");
                is(V::some(u(&inv, bits))).nt(true)
            } else {
                is(V::None)
            }
        }
        sum_nf | product_nf => {
            let items = args[0].as_l();
            let k = (args[1].as_n() as usize).min(items.len());
            let mut s = if op == sum_nf { BigUint::zero() } else { BigUint::one() };
            for x in &items[..k] {
                if op == sum_nf {
                    s += big(x.limbs());
                } else {
                    s *= big(x.limbs());
                }
            }
            // how much of the iterator is consumed is not promised (a product may stop at a zero): only the values are compared
            let w = wrap(&s, bits);
            pred(&format!("({w:?}, _, {w:?}, _): the sum / product of the items before the first None, by value and by reference"), move |g| matches!(g, V::T(t) if t.len() == 4 && t[0] == w && t[2] == w)).nt(true)
        }
        product_v | product_r | product_v_nh | product_r_nh | product_v_f => {
            let mut s = BigUint::one();
            for x in args[0].as_l() {
                s *= big(x.limbs());
            }
            is(wrap(&s, bits)).nt(s >= m)
        }
        div_rem | div_vv | div_vr | div_rv | div_rr | div_assign_v | div_assign_r | rem_vv | rem_vr | rem_rv | rem_rr | rem_assign_v | rem_assign_r | wrapping_div | wrapping_rem | checked_div
        | checked_rem | div_ceil | next_multiple_of | checked_next_multiple_of => {
            let (n, d) = (a(), b());
            if d.is_zero() {
                return match op {
                    checked_div | checked_rem | checked_next_multiple_of => is(V::None),
                    _ => is(V::Panic),
                }
                .nt(true);
            }
            let (q, r) = n.div_rem(&d);
            let dl = args[1].limbs();
            let dlen = dl.iter().rposition(|x| *x != 0).map_or(0, |i| i + 1);
            let nt = n < d || (dlen >= 3 && dl[dlen - 1] < (1 << 63)) || (dlen >= 2 && !r.is_zero());
            match op {
                div_rem => is(V::T(vec![u(&q, bits), u(&r, bits)])),
                div_vv | div_vr | div_rv | div_rr | div_assign_v | div_assign_r | wrapping_div => is(u(&q, bits)),
                rem_vv | rem_vr | rem_rv | rem_rr | rem_assign_v | rem_assign_r | wrapping_rem => is(u(&r, bits)),
                checked_div => is(V::some(u(&q, bits))),
                checked_rem => is(V::some(u(&r, bits))),
                div_ceil => is(u(&if r.is_zero() { q } else { q + 1u32 }, bits)),
                next_multiple_of | checked_next_multiple_of => {
                    let c = if r.is_zero() { q } else { q + 1u32 };
                    let nm = c * &d;
                    if nm < m {
                        is(if op == next_multiple_of { u(&nm, bits) } else { V::some(u(&nm, bits)) })
                    } else {
                        is(if op == next_multiple_of { V::Panic } else { V::None })
                    }
                }
                _ => unreachable!(),
            }
            .nt(nt)
        }
        reduce_mod => {
            let (a, md) = (a(), b());
            is(u(&if md.is_zero() { BigUint::zero() } else { &a % &md }, bits)).nt(a >= md)
        }
        add_mod | mul_mod | pow_mod => {
            let (a, b, md) = (a(), b(), c());
            if md.is_zero() {
                return is(u(&BigUint::zero(), bits)).nt(true);
            }
            let (r, nt) = match op {
                add_mod => ((&a + &b) % &md, &a + &b >= m || a >= md || b >= md),
                mul_mod => ((&a * &b) % &md, &a * &b >= m || a >= md || b >= md),
                _ => (a.modpow(&b, &md), a >= md || b.bits() > 1),
            };
            is(u(&r, bits)).nt(nt)
        }
        inv_mod => {
            let (a, md) = (a(), b());
            if md >= BigUint::from(2u32) && a.gcd(&md).is_one() {
                is(V::some(u(&a.modinv(&md).expect("harness: coprime has inverse"), bits))).nt(true)
            } else {
                is(V::None)
            }
        }
        pow | wrapping_pow | overflowing_pow | checked_pow | saturating_pow => {
            let (a, e) = (a(), b());
            let (val, o) = pow_model(&a, &e, bits);
            if bits == 0 {
                // 0^0 at zero width: the value can only be 0; no claim on the flag
                return match op {
                    pow | wrapping_pow | saturating_pow => is(u(&val, bits)),
                    _ => dont_care(),
                };
            }
            match op {
                overflowing_pow => is(V::T(vec![u(&val, bits), V::B(o)])),
                checked_pow => is(if o { V::None } else { V::some(u(&val, bits)) }),
                saturating_pow => is(if o { maxv(bits) } else { u(&val, bits) }),
                _ => is(u(&val, bits)),
            }
            .nt(o || e.bits() > 1)
        }
        log | checked_log => {
            let (v, b) = (a(), b());
            let bad = v.is_zero() || b < BigUint::from(2u32);
            if bad {
                // the property defines the checked form only (None, without panicking); what the panicking form does for
                // value 0 or base < 2 is outside it
                if op == log { dont_care() } else { is(V::None) }
            } else {
                let k = log_model(&v, &b);
                is(if op == log { V::N(k) } else { V::some(V::N(k)) }).nt(k > 0)
            }
        }
        log2 | log10 | checked_log2 | checked_log10 => {
            let v = a();
            let checked = matches!(op, checked_log2 | checked_log10);
            if v.is_zero() {
                if checked { is(V::None) } else { dont_care() }
            } else {
                let b = BigUint::from(if matches!(op, log2 | checked_log2) { 2u32 } else { 10u32 });
                let k = log_model(&v, &b);
                is(if checked { V::some(V::N(k)) } else { V::N(k) }).nt(k > 0)
            }
        }
        root => {
            let v = a();
            let d = args[1].as_n() as usize;
            if d == 0 {
                // the property quantifies over degrees >= 1
                return dont_care();
            }
            let r = root_model(&v, d);
            is(u(&r, bits)).nt(d >= 2 && r > BigUint::one())
        }
    }
}

group_glue!();

fn vu(l: &Limbs) -> V {
    V::U(l.clone())
}

/// Enumerate all pairs of `ua x ub` and run `ops` on each.
fn pairs(r: &Runner, name: &str, bits: usize, ua: &[Limbs], ub: &[Limbs], ops: &[Op]) {
    r.universe(name, bits, ua.len(), |i, l| {
        let a = vu(&ua[i]);
        for bb in ub {
            let args = [a.clone(), vu(bb)];
            l.states(1);
            for &op in ops {
                exec(l, bits, op, &args);
            }
        }
    });
}
/// pairs (a, b) with b RELATED to a (a, !a, a+-1, -a, a/2, 2a, ...), a from a large unary universe
fn related_pairs(r: &Runner, bits: usize, ops: &[Op]) {
    let (ua, d) = pick(bits, if SWEEP { 300 } else if r.is_thorough() { 60_000 } else { 12_000 }, &salt(r.seed));
    r.universe(&format!("{d} x related operands (a, !a, a+-1, -a, -a+-1, a/2, 2a, limb-reversed, ...)"), bits, ua.len(), |i, l| {
        let a = vu(&ua[i]);
        for b in related(bits, &ua[i]) {
            let bv = vu(&b);
            l.states(2);
            for &op in ops {
                exec(l, bits, op, &[a.clone(), bv.clone()]);
                exec(l, bits, op, &[bv.clone(), a.clone()]);
            }
        }
    });
}

fn unary(r: &Runner, name: &str, bits: usize, ua: &[Limbs], ops: &[Op]) {
    r.universe(name, bits, ua.len(), |i, l| {
        let args = [vu(&ua[i])];
        l.states(1);
        for &op in ops {
            exec(l, bits, op, &args);
        }
    });
}
fn triples(r: &Runner, name: &str, bits: usize, ua: &[Limbs], ub: &[Limbs], uc: &[Limbs], ops: &[Op]) {
    r.universe(name, bits, ua.len() * ub.len(), |i, l| {
        let a = vu(&ua[i / ub.len()]);
        let b = vu(&ub[i % ub.len()]);
        for cc in uc {
            let args = [a.clone(), b.clone(), vu(cc)];
            l.states(1);
            for &op in ops {
                exec(l, bits, op, &args);
            }
        }
    });
}

/// Universe for binary operations at a wide width: as large an alphabet product as the tier allows.
fn bin_universe(r: &Runner, bits: usize) -> (Vec<Limbs>, String) {
    if SWEEP {
        return pick(bits, 260, &[]);
    }
    let n = nlimbs(bits);
    let mut s = salt(r.seed);
    if r.is_thorough() {
        s.extend(golden(2));
    }
    let (al, extra): (&[u64], &[u64]) = if r.is_thorough() {
        match n {
            0..=3 => (A8, &s[..]),
            4 => (A8, &[]),
            5 => (A5, &[]),
            _ => (A3, &[]),
        }
    } else {
        match n {
            0..=2 => (A8, &s[..]),
            3 => (A5, &s[..1]),
            4 => (A4, &[]),
            _ => (A3, &[]),
        }
    };
    let (mut v, desc) = wide(bits, al, true, extra);
    // keep the pair product enumerable: cap the universe size per tier by dropping to a smaller alphabet
    let cap = if SWEEP { 260 } else if r.is_thorough() { 7500 } else { 2000 };
    if v.len() > cap {
        let (v2, d2) = wide(bits, if n >= 5 { A3 } else { A4 }, true, &[]);
        if v2.len() < v.len() {
            return (v2, d2);
        }
    }
    if v.len() > cap {
        let (v2, d2) = wide(bits, &[0, u64::MAX], true, &[]);
        v = v2;
        return (v, d2);
    }
    (v, desc)
}

fn small_max(r: &Runner, quick: usize, thorough: usize) -> usize {
    if SWEEP {
        return quick.min(8);
    }
    if r.is_thorough() {
        thorough
    } else {
        quick
    }
}
fn big_widths() -> &'static [usize] {
    if SWEEP {
        &[]
    } else {
        W_BIG
    }
}
fn edge_widths(r: &Runner) -> Vec<usize> {
    if SWEEP {
        return WIDTHS.iter().copied().filter(|w| *w > 12).collect();
    }
    let mut w = if r.is_thorough() { W_EDGE.to_vec() } else { W_EDGE_QUICK.to_vec() };
    if r.is_thorough() {
        w.push(1024);
    }
    w
}

const C01_BIN: &[Op] = &[
    Op::overflowing_add, Op::checked_add, Op::saturating_add, Op::wrapping_add, Op::overflowing_sub, Op::checked_sub, Op::saturating_sub,
    Op::wrapping_sub, Op::abs_diff, Op::add_vv, Op::add_vr, Op::add_rv, Op::add_rr, Op::add_assign_v, Op::add_assign_r, Op::sub_vv, Op::sub_vr,
    Op::sub_rv, Op::sub_rr, Op::sub_assign_v, Op::sub_assign_r,
];
const C01_UN: &[Op] = &[Op::overflowing_neg, Op::checked_neg, Op::wrapping_neg, Op::neg_v, Op::neg_r, Op::add_alias, Op::sub_alias];
const SUMS: &[Op] = &[Op::sum_v, Op::sum_r, Op::sum_v_nh, Op::sum_r_nh, Op::sum_v_f];
const PRODUCTS: &[Op] = &[Op::product_v, Op::product_r, Op::product_v_nh, Op::product_r_nh, Op::product_v_f];
const C02_UN: &[Op] = &[Op::inv_ring, Op::mul_alias];
const C03_UN: &[Op] = &[Op::div_alias, Op::rem_alias];
/// widths beyond the edge grid: 19 limbs (an odd limb count above 16), exactly 64 limbs (U4096: one bit per limb fills a word) and 65 limbs (beyond the largest alias)
const W_BIG: &[usize] = &[1216, 4096, 4160];
const C02_BIN: &[Op] = &[
    Op::overflowing_mul, Op::checked_mul, Op::saturating_mul, Op::wrapping_mul, Op::mul_vv, Op::mul_vr, Op::mul_rv, Op::mul_rr, Op::mul_assign_v,
    Op::mul_assign_r,
];
const C03_BIN: &[Op] = &[
    Op::div_rem, Op::div_vv, Op::div_vr, Op::div_rv, Op::div_rr, Op::div_assign_v, Op::div_assign_r, Op::rem_vv, Op::rem_vr, Op::rem_rv,
    Op::rem_rr, Op::rem_assign_v, Op::rem_assign_r, Op::wrapping_div, Op::wrapping_rem, Op::checked_div, Op::checked_rem, Op::div_ceil,
    Op::next_multiple_of, Op::checked_next_multiple_of,
];
// in the big derived universes only the distinct code paths are run
const C03_CORE: &[Op] = &[Op::div_rem, Op::div_ceil, Op::checked_next_multiple_of, Op::rem_assign_r, Op::div_rv];

/// all sequences of length 0..=3 over `vals`
fn seqs(vals: &[Limbs], maxlen: usize) -> Vec<V> {
    let mut out = vec![V::L(vec![])];
    let mut cur: Vec<Vec<V>> = vec![vec![]];
    for _ in 0..maxlen {
        let mut nx = vec![];
        for s in &cur {
            for v in vals {
                let mut t = s.clone();
                t.push(vu(v));
                nx.push(t);
            }
        }
        out.extend(nx.iter().cloned().map(V::L));
        cur = nx;
    }
    out
}
fn run_seqs(r: &Runner, name: &str, bits: usize, vals: &[Limbs], ops: &[Op]) {
    let s = seqs(vals, 3);
    r.universe(name, bits, s.len(), |i, l| {
        let args = [s[i].clone()];
        l.states(1);
        for &op in ops {
            exec(l, bits, op, &args);
        }
    });
}

fn c01(r: &Runner) {
    r.set_rule("cases = (width, entry point, operand tuple); universes: S(B)^2 = all pairs of all 2^B values for every B <= Smax; L/R/P(B)^2 = all pairs over the limb-alphabet product united with run-shaped and 2^k+-1 values at each edge width; all sequences of length 0..3 for sums. non-trivial = a carry or borrow crosses a limb boundary or the overflow flag is set");
    for bits in 0..=small_max(r, 9, 12) {
        let u = small_all(bits);
        pairs(r, &format!("S({bits})^2"), bits, &u, &u, C01_BIN);
        unary(r, &format!("S({bits})"), bits, &u, C01_UN);
    }
    for bits in [11usize, 12, 16] {
        let u = small_all(bits);
        unary(r, &format!("S({bits})"), bits, &u, C01_UN);
    }
    for bits in edge_widths(r) {
        let (u, d) = bin_universe(r, bits);
        pairs(r, &format!("({d})^2"), bits, &u, &u, C01_BIN);
        unary(r, &d, bits, &u, C01_UN);
        related_pairs(r, bits, C01_BIN);
    }
    for &bits in big_widths() {
        let (u, d) = pick(bits, if r.is_thorough() { 900 } else { 300 }, &[]);
        pairs(r, &format!("({d})^2"), bits, &u, &u, C01_BIN);
        let (u, d) = pick(bits, 4000, &[]);
        unary(r, &d, bits, &u, C01_UN);
    }
    for bits in 0..=5usize {
        let u = small_all(bits);
        if u.len() <= 16 || r.is_thorough() {
            run_seqs(r, &format!("S({bits})^(0..3) sums"), bits, &u, SUMS);
        }
    }
    for bits in [64usize, 65, 128, 129] {
        let u = limb_product(bits, A3).unwrap();
        run_seqs(r, &format!("L({bits};A3)^(0..3) sums"), bits, &u, SUMS);
    }
    // longer sequences (a carry can be needed several times at the same position): all sequences of length 0..=7
    // over {0, 1, 2^64-1 in every limb, MAX}
    for bits in [65usize, 128, 192, 257] {
        let n = nlimbs(bits);
        let mut vals = vec![vec![0u64; n], { let mut v = vec![0u64; n]; v[0] = 1; v }, { let mut v = vec![u64::MAX; n]; v[n - 1] = mask(bits) >> 1; v }, max_limbs(bits)];
        vals.dedup();
        let mut seq: Vec<V> = vec![];
        let mut cur: Vec<Vec<V>> = vec![vec![]];
        for _ in 0..7 {
            let mut nx = vec![];
            for s in &cur {
                for v in &vals {
                    let mut t = s.clone();
                    t.push(vu(v));
                    nx.push(t);
                }
            }
            seq.extend(nx.iter().cloned().map(V::L));
            cur = nx;
        }
        r.universe(&format!("{{0,1,MAX/2,MAX}}^(1..7) sums ({} sequences)", seq.len()), bits, seq.len(), |i, l| {
            l.states(1);
            for &op in SUMS {
                exec(l, bits, op, &[seq[i].clone()]);
            }
        });
    }
    for bits in [0usize, 1, 7, 64, 65, 128, 129, 256, 257] {
        long_seqs(r, "long sums", bits, SUMS, false);
    }
}

/// Long sequences for `Sum` / `Product`: every length in a list that brackets the block sizes a chunked or unrolled
/// reduction could use (8, 16, 32, 64 and their neighbours), filled with a few fixed patterns. A reduction that works in
/// blocks and keeps scratch state between blocks is only wrong for lengths that are NOT a multiple of its block.
fn long_seqs(r: &Runner, what: &str, bits: usize, ops: &'static [Op], product: bool) {
    let n = nlimbs(bits);
    let lens: Vec<usize> = {
        let mut l: Vec<usize> = (4..=20).collect();
        l.extend([23, 24, 25, 31, 32, 33, 47, 48, 49, 63, 64, 65, 100, 127, 128, 129, 255, 256, 257, 511, 512, 513, 767, 768, 1024, 1025]);
        l
    };
    let word = |w: u64| { let mut v = vec![0u64; n]; if n > 0 { v[0] = w; let last = n - 1; v[last] &= mask(bits); } v };
    let mx = max_limbs(bits);
    let half = { let mut v = vec![u64::MAX; n]; if n > 0 { v[n - 1] = mask(bits) >> 1; } v };
    let mut seqs: Vec<V> = vec![];
    for &len in &lens {
        // 1, 2, 3, ... ; all ones; all MAX; MAX/2 repeated; alternating 1 / MAX; one large item at every 7th place; 3, 3, 3, ...
        let pats: Vec<Box<dyn Fn(usize) -> Limbs>> = vec![
            Box::new(|i| word(i as u64 + 1)),
            Box::new(|_| word(1)),
            Box::new(|_| mx.clone()),
            Box::new(|_| half.clone()),
            Box::new(|i| if i % 2 == 0 { word(1) } else { mx.clone() }),
            Box::new(|i| if i % 7 == 6 { half.clone() } else { word(2) }),
            Box::new(|_| word(3)),
            Box::new(|i| word(0x9E37_79B9_7F4A_7C15u64.wrapping_mul(i as u64 + 1) | 1)),
        ];
        for (k, p) in pats.iter().enumerate() {
            if (product && len > 65 && k != 1 && k != 6) || (!product && len > 300 && !matches!(k, 2 | 3 | 4 | 7)) {
                continue; // long products of large factors are all zero or all alike: keep the informative ones
            }
            seqs.push(V::L((0..len).map(|i| vu(&p(i))).collect()));
        }
    }
    r.universe(&format!("{what}: {} sequences of length 4..=20, 23..25, 31..33, 47..49, 63..65, 100, 127..129, 255..257, 511..513, 767, 768, 1024, 1025 in 8 patterns", seqs.len()), bits, seqs.len(), |i, l| {
        l.states(1);
        for &op in ops {
            exec(l, bits, op, &[seqs[i].clone()]);
        }
        // the same sequence through a non-fused iterator with its gap at every position up to 12 and near the end
        let n = match &seqs[i] { V::L(v) => v.len(), _ => 0 };
        if n <= 33 {
            for k in (0..=n.min(12)).chain(n.saturating_sub(2)..=n) {
                exec(l, bits, if product { Op::product_nf } else { Op::sum_nf }, &[seqs[i].clone(), V::n(k)]);
            }
        }
    });
}

fn c02(r: &Runner) {
    r.set_rule("universes as C01 (all pairs); inv_ring on every value of S(B), B <= 16, and of the wide universes; products of all sequences of length 0..3; widening_mul on the (BITS, BITS_RHS) grid. non-trivial = the product has bits at or above 2^BITS, or an operand has a zero limb next to a non-zero limb (trimming / early-exit paths of the kernel)");
    for bits in 0..=small_max(r, 9, 11) {
        let u = small_all(bits);
        pairs(r, &format!("S({bits})^2"), bits, &u, &u, C02_BIN);
    }
    for bits in [0usize, 1, 2, 3, 4, 5, 6, 7, 8, 9, 10, 11, 12, 16] {
        let u = small_all(bits);
        unary(r, &format!("S({bits})"), bits, &u, C02_UN);
    }
    for bits in edge_widths(r) {
        let (u, d) = bin_universe(r, bits);
        pairs(r, &format!("({d})^2"), bits, &u, &u, C02_BIN);
        unary(r, &d, bits, &u, C02_UN);
        related_pairs(r, bits, C02_BIN);
    }
    // half-word alphabet: limbs = two 32-bit halves from {0,1,2,2^31,2^32-2,2^32-1}
    if !SWEEP {
        let h = h36();
        let u64s: Vec<Limbs> = h.iter().map(|x| vec![*x]).collect();
        pairs(r, "(H36)^2 at 64 bits", 64, &u64s, &u64s, C02_BIN);
        let hs: Vec<u64> = h.iter().copied().step_by(if r.is_thorough() { 1 } else { 2 }).collect();
        let u128s: Vec<Limbs> = hs.iter().flat_map(|a| hs.iter().map(move |b| vec![*a, *b])).collect();
        pairs(r, &format!("(H36 limbs, {} values)^2 at 128 bits", u128s.len()), 128, &u128s, &u128s, &[Op::overflowing_mul, Op::mul_rr]);
    }
    for &bits in big_widths() {
        let (u, d) = pick(bits, if r.is_thorough() { 300 } else { 120 }, &[]);
        pairs(r, &format!("({d})^2"), bits, &u, &u, C02_BIN);
        let (u, d) = pick(bits, if r.is_thorough() { 4000 } else { 1200 }, &[]);
        unary(r, &d, bits, &u, C02_UN);
    }
    for bits in 0..=5usize {
        let u = small_all(bits);
        if u.len() <= 16 || r.is_thorough() {
            run_seqs(r, &format!("S({bits})^(0..3) products"), bits, &u, PRODUCTS);
        }
    }
    for bits in [64usize, 65, 128, 129] {
        let u = limb_product(bits, A3).unwrap();
        run_seqs(r, &format!("L({bits};A3)^(0..3) products"), bits, &u, PRODUCTS);
    }
    for bits in [0usize, 1, 7, 64, 65, 128, 129, 256, 257] {
        long_seqs(r, "long products", bits, PRODUCTS, true);
    }
    // GIANT width: balanced operands of every significant length around the sizes where a sub-quadratic multiplication
    // would split (odd and even, halves odd and even), dense limbs
    if !SWEEP {
        let bits = 65_536usize;
        let n = nlimbs(bits);
        let g = golden(600);
        let lens: Vec<usize> = vec![15, 16, 17, 31, 32, 33, 34, 35, 47, 63, 64, 65, 66, 67, 70, 99, 100, 127, 128, 129, 130, 255, 256, 257, 511, 512];
        r.universe(&format!("GIANT U{bits}: dense balanced operands with {} significant lengths 15..=512 limbs", lens.len()), bits, lens.len(), |i, l| {
            let len = lens[i];
            for salt in [0usize, 13] {
                let mut a = vec![0u64; n];
                let mut b = vec![0u64; n];
                for k in 0..len {
                    a[k] = g[(k + salt) % 600] | 1;
                    b[k] = g[(k + salt + 301) % 600] | 1;
                }
                l.states(1);
                for &op in &[Op::wrapping_mul, Op::overflowing_mul, Op::mul_rr, Op::mul_assign_v] {
                    exec(l, bits, op, &[vu(&a), vu(&b)]);
                }
                exec(l, bits, Op::mul_alias, &[vu(&a)]);
            }
        });
    }
    for bits in [128usize, 129, 192, 256, 320] {
        let sv = solved_2x2();
        let nlb = nlimbs(bits);
        r.universe(&format!("{} solved pairs (two carries out of the middle column of a 2x2-limb product) in the low limbs", sv.len()), bits, sv.len(), |i, l| {
            for hi in [0u64, 1, u64::MAX] {
                let mut a = sv[i].0.clone();
                a.resize(nlb, hi);
                let mut b = sv[i].1.clone();
                b.resize(nlb, 0);
                let last = nlb - 1;
                a[last] &= mask(bits);
                l.states(1);
                for &op in C02_BIN {
                    exec(l, bits, op, &[vu(&a), vu(&b)]);
                    exec(l, bits, op, &[vu(&b), vu(&a)]);
                }
            }
        });
    }
    if !SWEEP {
        widening(r);
    }
}

// widening_mul needs four const parameters: its own shim and grid.
/// SOLVED operands for the middle column of a 2 x 2-limb product: a = a1:a0, b = b1:b0 with a0*b1 + a1*b0 = T for a
/// target T just below 2^128 such that adding the high word of a0*b0 crosses 2^128 - two carries out of one column
/// (density 2^-64 under any alphabet or random choice; the extreme-limb alphabets miss the window by 2).
fn solved_2x2() -> Vec<(Limbs, Limbs)> {
    let words: [u64; 8] = [u64::MAX, u64::MAX - 2, (1 << 63) + 1, 0x9E37_79B9_7F4A_7C15, 0xC2B2_AE3D_27D4_EB4F, 0xffff_ffff_0000_0001, 0x8000_0000_8000_0001, 1_000_000_007 * 9_999_999_967];
    let p128 = pow2(128);
    let p64 = pow2(64);
    let mut out = vec![];
    for &a0 in &words {
        for &b0 in &words {
            let (ba0, bb0) = (BigUint::from(a0), BigUint::from(b0));
            let Some(inv) = (&ba0 % &bb0).modinv(&bb0) else { continue };
            let h = (&ba0 * &bb0) >> 64usize;
            if h.is_zero() {
                continue;
            }
            for t in [&p128 - 1u32, &p128 - &h, &p128 - (&h >> 1usize) - 1u32, &p128 - &h + 1u32, &p128 - &h - 1u32, &p128 - 2u32] {
                let b1 = (&t % &bb0) * &inv % &bb0;
                let rest = &ba0 * &b1;
                if rest > t {
                    continue;
                }
                let num = &t - rest;
                if !(&num % &bb0).is_zero() {
                    continue;
                }
                let a1 = num / &bb0;
                if a1 >= p64 || b1 >= p64 {
                    continue;
                }
                let w = |x: &BigUint| x.iter_u64_digits().next().unwrap_or(0);
                out.push((vec![a0, w(&a1)], vec![b0, w(&b1)]));
            }
        }
    }
    out.sort();
    out.dedup();
    out
}

fn wm<const B1: usize, const L1: usize, const B2: usize, const L2: usize, const B3: usize, const L3: usize>(r: &Runner) {
    let ua = if B1 <= 8 { small_all(B1) } else { wide(B1, A5, true, &[]).0 };
    let ub = if B2 <= 8 { small_all(B2) } else { wide(B2, A5, true, &[]).0 };
    if B1 >= 128 && B2 >= 128 {
        // solved column carries in the low two limbs (upper limbs zero)
        let sv = solved_2x2();
        r.universe(&format!("widening_mul {B1}x{B2}: {} solved pairs (two carries out of the middle column of a 2x2-limb product)", sv.len()), B1, sv.len(), |i, l| {
            for (x, y) in [(&sv[i].0, &sv[i].1), (&sv[i].1, &sv[i].0)] {
                let mut xa = x.clone();
                xa.resize(L1, 0);
                let mut yb = y.clone();
                yb.resize(L2, 0);
                let args = [vu(&xa), vu(&yb)];
                l.states(1);
                let got = l.guard("widening_mul", "|a: Uint<B1,L1>, b: Uint<B2,L2>| a.widening_mul::<B2, L2, B3, L3>(b)", B1, &args, || {
                    let a: Uint<B1, L1> = FromV::<B1, L1>::from_v(&args[0]);
                    let b: Uint<B2, L2> = FromV::<B2, L2>::from_v(&args[1]);
                    a.widening_mul::<B2, L2, B3, L3>(b).into_v()
                });
                let p = big(&xa) * big(&yb);
                l.record("widening_mul", "a.widening_mul(b)", B1, &args, got, is(V::U(to_limbs(&p, B3))).nt(true));
            }
        });
    }
    let name = format!("widening_mul {B1}x{B2}");
    r.universe(&name, B1, ua.len(), |i, l| {
        for bb in &ub {
            let args = [vu(&ua[i]), vu(bb)];
            l.states(1);
            let got = l.guard("widening_mul", "|a: Uint<B1,L1>, b: Uint<B2,L2>| a.widening_mul::<B2, L2, B3, L3>(b)", B1, &args, || {
                let a: Uint<B1, L1> = FromV::<B1, L1>::from_v(&args[0]);
                let b: Uint<B2, L2> = FromV::<B2, L2>::from_v(&args[1]);
                a.widening_mul::<B2, L2, B3, L3>(b).into_v()
            });
            let p = big(&ua[i]) * big(bb);
            let nt = p.bits() as usize > B1.max(B2);
            l.record("widening_mul", "a.widening_mul(b)", B1, &args, got, is(V::U(to_limbs(&p, B3))).nt(nt));
        }
    });
}
macro_rules! wm_grid {
    ($r:expr; $( ($a:literal, $b:literal) ),* $(,)?) => {$(
        wm::<$a, {($a + 63) / 64}, $b, {($b + 63) / 64}, {$a + $b}, {($a + $b + 63) / 64}>($r);
    )*};
}
fn widening(r: &Runner) {
    wm_grid!(r;
        (0,0),(0,1),(0,64),(0,256),(1,0),(1,1),(1,7),(1,63),(1,64),(1,65),(1,128),(1,256),
        (7,0),(7,1),(7,7),(7,63),(7,64),(7,65),(7,129),(7,256),
        (63,1),(63,7),(63,63),(63,64),(63,65),(63,128),(63,256),
        (64,0),(64,1),(64,7),(64,63),(64,64),(64,65),(64,128),(64,129),(64,256),
        (65,1),(65,7),(65,63),(65,64),(65,65),(65,128),(65,129),(65,256),
        (128,1),(128,64),(128,65),(128,128),(128,129),(128,256),
        (129,7),(129,64),(129,65),(129,128),(129,129),(129,256),
        (256,0),(256,1),(256,7),(256,64),(256,65),(256,128),(256,129),(256,256));
}

/// derived universe n = q*d + r + delta
fn derived_div(bits: usize, base: &[Limbs]) -> Vec<(Limbs, Limbs)> {
    let m = pow2(bits);
    let mut out = vec![];
    for q in base {
        let bq = big(q);
        for d in base {
            let bd = big(d);
            if bd.is_zero() {
                continue;
            }
            let qd = &bq * &bd;
            if qd >= m {
                continue;
            }
            let rs = [BigUint::zero(), BigUint::one(), &bd - 1u32];
            for rr in rs.iter() {
                if rr >= &bd {
                    continue;
                }
                for delta in [-1i32, 0, 1] {
                    let n = &qd + rr;
                    let n = if delta < 0 {
                        if n.is_zero() {
                            continue;
                        }
                        n - 1u32
                    } else {
                        n + delta as u32
                    };
                    if n < m {
                        out.push((to_limbs(&n, bits), d.clone()));
                    }
                }
            }
        }
    }
    out.sort();
    out.dedup();
    out
}

/// GIANT width (65 536 bits): numerators and divisors of every significant length around the powers of two (a fixed-size
/// scratch buffer or a length kept in a narrow type is sized for typical widths), dense limbs, normalised and
/// un-normalised divisors.
fn c03_giant(r: &Runner) {
    if SWEEP {
        return;
    }
    let bits = 65_536usize;
    let n = nlimbs(bits);
    let g = golden(n + 8);
    let lens: Vec<usize> = vec![1, 2, 3, 4, 5, 31, 32, 33, 63, 64, 65, 127, 128, 129, 130, 131, 255, 256, 257, 511, 512, 513, 1023, 1024];
    let mk = |len: usize, top: u64, salt: usize| -> Limbs {
        let mut v = vec![0u64; n];
        for i in 0..len {
            v[i] = g[(i + salt) % g.len()];
        }
        v[len - 1] = top;
        v
    };
    let mut cases: Vec<(Limbs, Limbs)> = vec![];
    for &ln in &lens {
        for &ld in &[1usize, 2, 3, 5, 64, 65, 128, 129] {
            if ld > ln {
                continue;
            }
            for (tn, td) in [(u64::MAX, 1u64), (1, u64::MAX), (0x1234_5678_9abc_def0, 0x0fed_cba9_8765_4321), (1 << 63, (1 << 63) + 1)] {
                cases.push((mk(ln, tn, 1), mk(ld, td, 5)));
            }
        }
    }
    r.universe(&format!("GIANT U{bits}: {} (numerator, divisor) pairs with significant lengths around every power of two up to the width", cases.len()), bits, cases.len(), |i, l| {
        let (a, b) = (vu(&cases[i].0), vu(&cases[i].1));
        l.states(1);
        for &op in &[Op::div_rem, Op::div_vv, Op::rem_rr, Op::div_ceil, Op::checked_rem] {
            exec(l, bits, op, &[a.clone(), b.clone()]);
        }
        exec(l, bits, Op::reduce_mod, &[a.clone(), b.clone()]);
        exec(l, bits, Op::mul_mod, &[a.clone(), a.clone(), b.clone()]);
    });
}

fn c03(r: &Runner) {
    c03_giant(r);
    r.set_rule("S(B)^2 including d = 0; (L/R/P(B))^2 at every edge width (divisors of every limb length, normalised and un-normalised); derived universe n = q*d + r + delta with q, d from the limb alphabet, r in {0, 1, d-1}, delta in {-1,0,1}. non-trivial = n < d, or divisor of >= 3 limbs with un-normalised top limb, or multi-limb divisor with non-zero remainder; the hook counters state how many executions reached each correction branch");
    for bits in 0..=small_max(r, 9, 11) {
        let u = small_all(bits);
        pairs(r, &format!("S({bits})^2"), bits, &u, &u, C03_BIN);
        unary(r, &format!("S({bits})"), bits, &u, C03_UN);
    }
    for bits in edge_widths(r) {
        let (u, d) = bin_universe(r, bits);
        pairs(r, &format!("({d})^2"), bits, &u, &u, C03_BIN);
        unary(r, &d, bits, &u, C03_UN);
        related_pairs(r, bits, C03_BIN);
    }
    for &bits in big_widths() {
        let (u, d) = pick(bits, if r.is_thorough() { 300 } else { 100 }, &[]);
        pairs(r, &format!("({d})^2"), bits, &u, &u, C03_CORE);
        unary(r, &d, bits, &u, C03_UN);
    }
    // exact multiples of ordinary one-limb divisors whose limbs above the lowest are drawn from {0,1,g1,g2}
    for bits in if SWEEP { vec![] } else { vec![128usize, 129, 192, 256, 257, 320, 512] } {
        let em = exact_multiples(bits, ORDINARY_DIVISORS);
        r.universe(&format!("exact multiples n = [solved, {{0,1,g1,g2}}..] of {} ordinary one-limb divisors, +-1", ORDINARY_DIVISORS.len()), bits, em.len(), |i, l| {
            let args = [vu(&em[i].0), vu(&em[i].1)];
            l.states(1);
            for &op in C03_CORE {
                exec(l, bits, op, &args);
            }
        });
    }
    // n = d * 2^(32 j) - 1, d * 2^(32 j), ... for ordinary one-limb divisors (incl. 32-bit divisors with the top bit set)
    for bits in if SWEEP { vec![] } else { vec![64usize, 128, 129, 192, 256, 257, 320] } {
        let sm = shifted_multiples(bits, ORDINARY_DIVISORS);
        r.universe(&format!("n = d*2^(32j) + delta for {} ordinary one-limb divisors", ORDINARY_DIVISORS.len()), bits, sm.len(), |i, l| {
            let args = [vu(&sm[i].0), vu(&sm[i].1)];
            l.states(1);
            for &op in C03_CORE {
                exec(l, bits, op, &args);
            }
        });
    }
    // divisors at both ends of every row of the reciprocal seed table
    if !SWEEP {
        row_sweep(r, false);
        let words = table_row_words(if r.is_thorough() { 256 } else { 32 });
        for bits in [64usize, 128, 200, 256] {
            let num: Vec<Limbs> = vec![max_limbs(bits), golden(nlimbs(bits)).iter().enumerate().map(|(i, x)| if i == nlimbs(bits) - 1 { x & mask(bits) } else { *x }).collect()];
            r.universe(&format!("divisors led by {} words at the ends of the 256 reciprocal-table rows x 2 numerators", words.len()), bits, words.len(), |i, l| {
                for d in row_divisors(bits, words[i]) {
                    for nn in &num {
                        l.states(1);
                        exec(l, bits, Op::div_rem, &[vu(nn), vu(&d)]);
                    }
                }
            });
        }
    }
    // derived universe
    let wsv: Vec<usize> = if SWEEP { WIDTHS.iter().copied().filter(|w| *w >= 64).collect() } else if r.is_thorough() { vec![64, 65, 127, 128, 129, 191, 192, 193, 255, 256, 257, 320, 384, 512] } else { vec![128, 129, 192, 256, 257] };
    for &bits in &wsv {
        let n = nlimbs(bits);
        let al: &[u64] = if r.is_thorough() {
            if n <= 3 { A8 } else if n <= 4 { A5 } else { A3 }
        } else if n <= 2 { A8 } else if n <= 3 { A5 } else { A3 };
        let base = if SWEEP { pick(bits, 90, &[]).0 } else { limb_product(bits, al).unwrap_or_else(|| runs(bits, RUN_YS)) };
        let base = if base.len() > 700 { limb_product(bits, A3).filter(|b| b.len() <= 700).unwrap_or_else(|| pick(bits, 700, &[]).0) } else { base };
        let cases = derived_div(bits, &base);
        r.universe(&format!("n=q*d+r+delta over {} base values", base.len()), bits, cases.len(), |i, l| {
            let args = [vu(&cases[i].0), vu(&cases[i].1)];
            l.states(1);
            for &op in C03_CORE {
                exec(l, bits, op, &args);
            }
        });
        let gc = golden_div_cases(bits, if SWEEP { 8 } else if r.is_thorough() { 48 } else { 20 });
        r.universe(&format!("n=q*d+r with q, d assembled from the structureless alphabet G ({} cases)", gc.len()), bits, gc.len(), |i, l| {
            let args = [vu(&gc[i].0), vu(&gc[i].1)];
            l.states(1);
            for &op in C03_CORE {
                exec(l, bits, op, &args);
            }
        });
    }
}

/// Leading words at both ends of every row of the 256-row reciprocal seed table (top 9 bits = row): 256 rows x 2 ends x
/// `per` prefixes spread over the first / last 2^19 values of the 40-bit prefix. A wrong table entry or seed
/// refinement shows at a row end (see C14), here it is driven through the Uint API.
fn table_row_words(per: u64) -> Vec<u64> {
    let mut out = vec![];
    for row in 256u64..512 {
        for j in 0..per {
            let off = j * ((1 << 19) / per);
            out.push((row << 55) | (off << 24) | 0x9e_3779);
            out.push((row << 55) | (((1u64 << 31) - 1 - off) << 24) | 0x61_c886);
        }
    }
    out
}
/// divisors of `bits` bits whose leading word (after normalisation) is `w`, in three shapes: one limb (shifted down by
/// 0 and 5 bits), two limbs and full length
fn row_divisors(bits: usize, w: u64) -> Vec<Limbs> {
    let n = nlimbs(bits);
    let m = pow2(bits);
    let mut out = vec![];
    let g = golden(n);
    for shift in [0usize, 5] {
        let v = BigUint::from(w >> shift);
        if v < m && !v.is_zero() {
            out.push(to_limbs(&v, bits));
        }
    }
    for len in [2usize, n] {
        if len < 2 || len > n {
            continue;
        }
        let mut l: Limbs = (0..len).map(|i| g[i]).collect();
        l[len - 1] = w;
        let v = big(&l) >> (64 * len).saturating_sub(bits).min(63);
        if v < m && !v.is_zero() {
            out.push(to_limbs(&v, bits));
        }
    }
    out.sort();
    out.dedup();
    out
}

/// DENSE sweep through the Uint API: for every row of the reciprocal seed table the first and last 2^K values of the
/// 40-bit prefix of a normalised one-word divisor (and of the leading word of a two-word divisor), compared in a tight
/// loop with native u64 / u128 division; mismatches (and panics) are re-run through `exec`.
fn row_sweep(r: &Runner, modular: bool) {
    let k: u32 = if r.is_thorough() { 23 } else { 21 };
    r.universe(&format!("256 reciprocal-table rows x first / last / Newton-maximum 2^{k} prefixes: {} at 64 and 128 bits (tight loop, native reference)", if modular { "reduce_mod / mul_mod" } else { "div_rem" }), 128, 256 * 48, |i, l| {
        let row = 256 + (i / 48) as u64;
        let part = (i % 48) as u64;
        let per = (1u64 << k) / 16;
        // third segment: around the interior point of the row where the table seed is exact (v0 * d40 = 2^50, see C14)
        let v0 = ((1u64 << 19) - 3 * (1 << 8)) / row;
        let centre = (((1u64 << 50) / v0).clamp(row << 31, (row << 31) | ((1 << 31) - 1))) & ((1 << 31) - 1);
        let mut n = 0u64;
        let n64 = 0xFEDC_BA98_7654_3210u64;
        let n128 = 0xFFFF_FFFF_FFFF_FFFF_0123_4567_89AB_CDEFu128;
        for j in 0..per {
            let off = if part < 16 { part * per + j } else if part < 32 { (1u64 << 31) - 1 - ((part - 16) * per + j) } else { (centre.saturating_sub(8 * per) + (part - 32) * per + j).min((1 << 31) - 1) };
            let d = (row << 55) | (off << 24) | if part < 16 { 0x00_0001 } else if part < 32 { 0xff_fffe } else if j % 2 == 0 { 0 } else { 0xff_ffff };
            // the two-limb forms on every 8th prefix
            let wide = j % 8 == 0;
            let d2 = ((d as u128) << 64) | 0x9E37_79B9_7F4A_7C15;
            let good = vharness::runner::guarded(|| {
                let (a, b) = (Uint::<64, 1>::from(n64), Uint::<64, 1>::from(d));
                let (x, y) = (Uint::<128, 2>::from(n128), Uint::<128, 2>::from(d));
                let (x2, y2) = (Uint::<128, 2>::MAX, Uint::<128, 2>::from(d2));
                if modular {
                    a.reduce_mod(b) == Uint::from(n64 % d) && (!wide || (x.reduce_mod(y) == Uint::from(n128 % d as u128) && x2.reduce_mod(y2) == Uint::from(u128::MAX % d2) && a.mul_mod(a, b) == Uint::from(((n64 as u128 * n64 as u128) % d as u128) as u64)))
                } else {
                    a.div_rem(b) == (Uint::from(n64 / d), Uint::from(n64 % d)) && (!wide || (x.div_rem(y) == (Uint::from(n128 / d as u128), Uint::from(n128 % d as u128)) && x2.div_rem(y2) == (Uint::from(u128::MAX / d2), Uint::from(u128::MAX % d2))))
                }
            })
            .unwrap_or(false);
            n += if wide { 4 } else { 1 };
            if !good {
                let w = |v: u128, bits: usize| V::U(to_limbs(&BigUint::from(v), bits));
                if modular {
                    exec(l, 64, Op::reduce_mod, &[w(n64 as u128, 64), w(d as u128, 64)]);
                    exec(l, 64, Op::mul_mod, &[w(n64 as u128, 64), w(n64 as u128, 64), w(d as u128, 64)]);
                    exec(l, 128, Op::reduce_mod, &[w(n128, 128), w(d as u128, 128)]);
                    exec(l, 128, Op::reduce_mod, &[w(u128::MAX, 128), w(d2, 128)]);
                } else {
                    exec(l, 64, Op::div_rem, &[w(n64 as u128, 64), w(d as u128, 64)]);
                    exec(l, 128, Op::div_rem, &[w(n128, 128), w(d as u128, 128)]);
                    exec(l, 128, Op::div_rem, &[w(u128::MAX, 128), w(d2, 128)]);
                }
            }
        }
        l.states(per);
        l.bulk(if modular { "reduce_mod" } else { "div_rem" }, n, n, 1);
    });
}

/// structureless operands: n = q*d + r with q, d assembled from the G alphabet (exact multiples whose
/// quotient-digit estimate is off by one exist only for operands without special bit structure)
fn golden_div_cases(bits: usize, k: usize) -> Vec<(Limbs, Limbs)> {
    let g = golden(k * 8 + 16);
    let nl = nlimbs(bits);
    let m = pow2(bits);
    let mut out = vec![];
    for dl in 1..=nl {
        for dv in 0..k {
            let mut d: Limbs = (0..dl).map(|i| g[(dv * 3 + i) % g.len()]).collect();
            if dv % 2 == 0 {
                d[dl - 1] |= 1 << 63;
            } else if dv % 3 == 0 {
                d[dl - 1] >>= 17;
            }
            let bd = big(&d);
            if bd.is_zero() {
                continue;
            }
            for ql in 1..=(nl + 1 - dl).max(1) {
                for qv in 0..k {
                    let q: Limbs = (0..ql).map(|i| g[(qv * 5 + i + 7) % g.len()]).collect();
                    let bq = big(&q);
                    for rr in [BigUint::zero(), BigUint::one(), &bd - 1u32] {
                        if rr >= bd {
                            continue;
                        }
                        let n = &bq * &bd + rr;
                        if n < m {
                            out.push((to_limbs(&n, bits), to_limbs(&bd, bits)));
                        }
                    }
                }
            }
        }
    }
    out.sort();
    out.dedup();
    out
}

fn pprime(bits: usize) -> Vec<Limbs> {
    // P'(B) = {0,1,2,3, 2^(B/2)+-1, 2^(B-1)+-1, 2^B-2, 2^B-1}
    let m = pow2(bits);
    let mut v: Vec<BigUint> = vec![0u32.into(), 1u32.into(), 2u32.into(), 3u32.into()];
    for k in [bits / 2, bits.saturating_sub(1)] {
        v.push(pow2(k) + 1u32);
        v.push(pow2(k));
        if k > 0 {
            v.push(pow2(k) - 1u32);
        }
    }
    if bits > 1 {
        v.push(&m - 2u32);
    }
    if bits > 0 {
        v.push(&m - 1u32);
    }
    let mut out: Vec<Limbs> = v.into_iter().filter(|x| x < &m).map(|x| to_limbs(&x, bits)).collect();
    out.sort();
    out.dedup();
    out
}

/// inv_mod on operands whose quotient sequence repeats a short pattern of medium quotients until the width is full:
/// the worst case for the NUMBER of outer Lehmer iterations (see C12's `periodic_quotients`).
fn c10_periodic(r: &Runner) {
    if SWEEP {
        return;
    }
    let mut pats: Vec<Vec<u64>> = vec![vec![1], vec![2], vec![1 << 16], vec![5, 1]];
    for q in [(1u64 << 22) + 1, (1 << 25) + 3, (1 << 28) - 1, (1 << 30) - 1, (1 << 31) + 5, 1 << 32] {
        pats.extend([vec![q], vec![q, 1], vec![q, 1, q / 3 + 1, 1]]);
    }
    for bits in [1024usize, 1025] {
        let m = pow2(bits);
        let mut pairs: Vec<(Limbs, Limbs)> = vec![];
        for pat in &pats {
            for g in [1u32, 6] {
                let (mut a, mut b) = (BigUint::from(g), BigUint::zero());
                let mut k = 0;
                loop {
                    let na = &a * pat[k % pat.len()] + &b;
                    if na >= m {
                        break;
                    }
                    b = a;
                    a = na;
                    k += 1;
                }
                pairs.push((to_limbs(&a, bits), to_limbs(&b, bits)));
            }
        }
        r.universe(&format!("periodic quotient sequences filling the width ({} pairs): inv_mod in both roles, reduce_mod", pairs.len()), bits, pairs.len(), |i, l| {
            let (x, y) = (vu(&pairs[i].0), vu(&pairs[i].1));
            l.states(1);
            exec(l, bits, Op::inv_mod, &[y.clone(), x.clone()]);
            exec(l, bits, Op::inv_mod, &[x.clone(), y.clone()]);
            exec(l, bits, Op::reduce_mod, &[x.clone(), y.clone()]);
        });
    }
}

/// pow_mod with exponents of every bit length class up to a type wider than 4096 bits (window sizes / tables of a
/// windowed exponentiation are chosen from the exponent's bit length): 4672 bits = 73 limbs.
fn c10_long_exponents(r: &Runner) {
    if SWEEP {
        return;
    }
    let bits = 4672usize;
    let n = nlimbs(bits);
    let g = golden(2 * n);
    let dense: Limbs = (0..n).map(|i| g[i] | 1).collect();
    let dense2: Limbs = (0..n).map(|i| g[i + n]).collect();
    let mut exps: Vec<BigUint> = vec![];
    for k in [7usize, 25, 81, 241, 673, 1793, 4095, 4096, 4097, 4608, 4609, 4610, 4671] {
        exps.extend([pow2(k), pow2(k) + 1u32, pow2(k + 1) - 1u32]);
    }
    exps.push(big(&dense2));
    exps.retain(|e| e.bits() as usize <= bits);
    let bases: Vec<BigUint> = vec![BigUint::from(2u32), BigUint::from(3u32), big(&dense2), pow2(bits) - 1u32];
    let moduli: Vec<BigUint> = vec![big(&dense), pow2(bits) - 1u32, BigUint::from(97u32), pow2(64) + 13u32, pow2(4000)];
    let mut cases: Vec<(Limbs, Limbs, Limbs)> = vec![];
    for e in &exps {
        for (k, b) in bases.iter().enumerate() {
            let m = &moduli[(k + e.bits() as usize) % moduli.len()];
            cases.push((to_limbs(b, bits), to_limbs(e, bits), to_limbs(m, bits)));
        }
    }
    r.universe(&format!("pow_mod at {bits} bits with exponents of 7 .. 4671 bits ({} cases)", cases.len()), bits, cases.len(), |i, l| {
        l.states(1);
        exec(l, bits, Op::pow_mod, &[vu(&cases[i].0), vu(&cases[i].1), vu(&cases[i].2)]);
    });
}

/// Dense (structureless) operands at EVERY difference of bit lengths 0..=72 below a dense modulus: the first Lehmer step
/// sees prefixes whose quotient has that many bits; conditions on "the quotient of the prefixes vs the quotient of the
/// full numbers" live at particular gaps (25..31 bits for a 32-bit short-sequence shortcut) that neither extreme-limb
/// alphabets nor equal-length operands produce.
fn c10_bit_gaps(r: &Runner) {
    if SWEEP {
        return;
    }
    for bits in [128usize, 192, 256] {
        let n = nlimbs(bits);
        let g = golden(n * 80);
        let mut pairs: Vec<(Limbs, Limbs)> = vec![];
        for salt in 0..64usize {
            let m: Limbs = (0..n).map(|i| g[(i + salt * n) % g.len()] | if i + 1 == n { 1 << 63 } else { 0 }).collect();
            let a0: Limbs = (0..n).map(|i| g[(i + salt * n + 7 * n + 3) % g.len()] | if i + 1 == n { 1 << 63 } else { 0 }).collect();
            for gap in 0..=72usize {
                let a = big(&a0) >> gap;
                pairs.push((to_limbs(&a, bits), m.clone()));
            }
        }
        r.universe(&format!("dense operands at every bit-length gap 0..=72 below a dense modulus ({} pairs): inv_mod, reduce_mod", pairs.len()), bits, pairs.len(), |i, l| {
            let (a, m) = (vu(&pairs[i].0), vu(&pairs[i].1));
            l.states(1);
            exec(l, bits, Op::inv_mod, &[a.clone(), m.clone()]);
            exec(l, bits, Op::inv_mod, &[m.clone(), a.clone()]);
            exec(l, bits, Op::reduce_mod, &[m.clone(), a.clone()]);
        });
    }
}

fn c10(r: &Runner) {
    c10_bit_gaps(r);
    c10_periodic(r);
    c10_long_exponents(r);
    r.set_rule("S(B)^3 = all triples of all values for B <= Smax (moduli include 0, 1, 2, 2^k, 2^B-1 automatically); at wide widths all triples over (limb alphabet product + P'(B)); inv_mod / reduce_mod on all pairs, and on every node of the quotient-sequence tree (inverse Euclid steps from seeds g in {1, 2, 15015, 2^64+1, 3*2^64+1, 2^128+1} with quotients {1,2,3,2^32-1,2^32,2^63,2^64-1}, every sequence with at most D deviations from the all-ones path). non-trivial = an operand is >= the modulus or the intermediate sum/product overflows BITS, or the modulus is 0");
    let smax = small_max(r, 6, 7);
    for bits in 0..=smax {
        let u = small_all(bits);
        triples(r, &format!("S({bits})^3"), bits, &u, &u, &u, &[Op::add_mod, Op::mul_mod, Op::pow_mod]);
    }
    if r.is_thorough() {
        for bits in [8usize] {
            let u = small_all(bits);
            triples(r, &format!("S({bits})^3"), bits, &u, &u, &u, &[Op::add_mod, Op::mul_mod, Op::pow_mod]);
        }
    }
    for bits in 0..=small_max(r, 8, 10) {
        let u = small_all(bits);
        pairs(r, &format!("S({bits})^2"), bits, &u, &u, &[Op::reduce_mod, Op::inv_mod]);
    }
    let ws: Vec<usize> = if SWEEP { WIDTHS.iter().copied().filter(|w| *w > 12).collect() } else if r.is_thorough() { vec![63, 64, 65, 127, 128, 129, 191, 192, 193, 255, 256, 257, 320, 512] } else { vec![64, 65, 128, 129, 192, 256, 257] };
    for bits in ws {
        // all triples: the universe is budgeted so that its cube stays enumerable
        let budget = if SWEEP { 16 } else if r.is_thorough() { 150 } else { 60 };
        let (mut u, ud) = pick(bits, budget, &[]);
        u.extend(pprime(bits));
        u.sort_by(|a, b| a.iter().rev().cmp(b.iter().rev()));
        u.dedup();
        triples(r, &format!("({ud}+P')^3 = {}^3", u.len()), bits, &u, &u, &u, &[Op::add_mod, Op::mul_mod, Op::pow_mod]);
        let (u2, d2) = bin_universe(r, bits);
        pairs(r, &format!("({d2})^2"), bits, &u2, &u2, &[Op::reduce_mod, Op::inv_mod]);
        related_pairs(r, bits, &[Op::reduce_mod, Op::inv_mod]);
    }
    // quotient-sequence universe (as C12): the tree of inverse Euclid steps (a, b) -> (q*a + b, a) from seeds (g, 0),
    // deviation-bounded (q = 1 is free, any other quotient costs 1); every node is a (value, modulus) pair in both roles
    if !SWEEP {
        const QS: [u64; 7] = [1, 2, 3, (1 << 32) - 1, 1 << 32, 1 << 63, u64::MAX];
        fn dfs(l: &mut Local, bits: usize, lim: &BigUint, a: &BigUint, b: &BigUint, dev: u32, maxdev: u32) {
            for &q in &QS {
                let cost = if q == 1 { 0 } else { 1 };
                if dev + cost > maxdev || (b.is_zero() && q == 1) {
                    continue;
                }
                let na = BigUint::from(q) * a + b;
                if &na >= lim {
                    continue;
                }
                l.states(1);
                let (x, y) = (u(&na, bits), u(a, bits));
                exec(l, bits, Op::inv_mod, &[y.clone(), x.clone()]);
                exec(l, bits, Op::inv_mod, &[x.clone(), y.clone()]);
                exec(l, bits, Op::reduce_mod, &[x, y]);
                dfs(l, bits, lim, &na, a, dev + cost, maxdev);
            }
        }
        let mut seeds: Vec<BigUint> = [1u64, 2, 3 * 5 * 7 * 11 * 13].iter().map(|g| BigUint::from(*g)).collect();
        // common divisors that are 1 modulo 2^64
        seeds.extend([pow2(64) + 1u32, pow2(64) * 3u32 + 1u32, pow2(128) + 1u32]);
        let qw: Vec<(usize, u32)> = if r.is_thorough() { vec![(64, 3), (65, 3), (127, 2), (128, 2), (129, 2), (192, 2), (193, 2), (256, 2), (257, 2), (320, 1), (512, 1)] } else { vec![(64, 2), (65, 2), (128, 2), (129, 1), (192, 1), (256, 1), (257, 1)] };
        for (bits, maxdev) in qw {
            let lim = pow2(bits);
            // roots: the children of every seed under every first quotient (tasks of the parallel search)
            let mut roots: Vec<(BigUint, BigUint, u32)> = vec![];
            for g in &seeds {
                for &q in &QS {
                    let na = BigUint::from(q) * g;
                    if q != 1 && na < lim && maxdev >= 1 {
                        roots.push((na, g.clone(), 1));
                    }
                }
                if g < &lim {
                    roots.push((g.clone(), BigUint::zero(), 0));
                }
            }
            r.universe(&format!("quotient sequences from {} seeds, <= {maxdev} deviations: inv_mod (both roles), reduce_mod at every node", seeds.len()), bits, roots.len(), |i, l| {
                let (a, b, dev) = &roots[i];
                if !b.is_zero() {
                    l.states(1);
                    let (x, y) = (u(a, bits), u(b, bits));
                    exec(l, bits, Op::inv_mod, &[y.clone(), x.clone()]);
                    exec(l, bits, Op::inv_mod, &[x, y]);
                }
                dfs(l, bits, &lim, a, b, *dev, maxdev);
            });
        }
    }
    // moduli at both ends of every row of the reciprocal seed table
    if !SWEEP {
        row_sweep(r, true);
        let words = table_row_words(if r.is_thorough() { 256 } else { 32 });
        for bits in [64usize, 128, 200, 256] {
            let g = golden(nlimbs(bits) + 1);
            let a: Limbs = g[1..].iter().enumerate().map(|(i, x)| if i == nlimbs(bits) - 1 { x & mask(bits) } else { *x }).collect();
            let b = max_limbs(bits);
            r.universe(&format!("moduli led by {} words at the ends of the 256 reciprocal-table rows", words.len()), bits, words.len(), |i, l| {
                for md in row_divisors(bits, words[i]) {
                    l.states(1);
                    exec(l, bits, Op::reduce_mod, &[vu(&a), vu(&md)]);
                    exec(l, bits, Op::mul_mod, &[vu(&a), vu(&b), vu(&md)]);
                    exec(l, bits, Op::add_mod, &[vu(&a), vu(&b), vu(&md)]);
                }
            });
        }
    }
    for &bits in big_widths() {
        let (mut u, ud) = pick_capped(bits, 24, &[]);
        u.extend(pprime(bits));
        u.sort_by(|a, b| a.iter().rev().cmp(b.iter().rev()));
        u.dedup();
        triples(r, &format!("({ud}+P')^3 = {}^3", u.len()), bits, &u, &u, &u, &[Op::add_mod, Op::mul_mod]);
        let (u2, d2) = pick_capped(bits, 90, &[]);
        pairs(r, &format!("({d2})^2"), bits, &u2, &u2, &[Op::reduce_mod, Op::inv_mod]);
    }
}

fn c13(r: &Runner) {
    r.set_rule("S(B)^2 for (base, exponent) and (value, base), B <= 8 (including widths 1..3 where 2 and 10 do not fit); (value, degree) for every value of S(B), B <= 12 (16 thorough), and every degree 1..B+2; wide: values b^k + delta (delta in {-1,0,1}) for bases b in a fixed list, as log arguments with bases b-1,b,b+1, as root arguments with degrees k-1,k,k+1, and (b,k),(b,k+1) as pow arguments; exponents also from P(B). non-trivial = result > 0 (log), root > 1 with degree >= 2, overflow or exponent >= 2 (pow)");
    let pw = [Op::pow, Op::wrapping_pow, Op::overflowing_pow, Op::checked_pow, Op::saturating_pow];
    let lg = [Op::log, Op::checked_log];
    let lg1 = [Op::log2, Op::log10, Op::checked_log2, Op::checked_log10];
    for bits in 0..=small_max(r, 9, 11) {
        let u = small_all(bits);
        pairs(r, &format!("S({bits})^2 pow"), bits, &u, &u, &pw);
        pairs(r, &format!("S({bits})^2 log"), bits, &u, &u, &lg);
    }
    let rmax = small_max(r, 12, 16);
    for bits in (0..=12usize).chain([16]) {
        if bits > rmax {
            continue;
        }
        let u = small_all(bits);
        unary(r, &format!("S({bits}) log2/log10"), bits, &u, &lg1);
        let degs: Vec<usize> = (0..=bits + 2).collect();
        r.universe(&format!("S({bits}) x degree 0..{}", bits + 2), bits, u.len(), |i, l| {
            for &d in &degs {
                let args = [vu(&u[i]), V::n(d)];
                l.states(1);
                exec(l, bits, Op::root, &args);
            }
        });
    }
    let mut ws = edge_widths(r);
    if !ws.contains(&1024) {
        ws.push(1024);
    }
    if !SWEEP {
        // beyond the f64 range: bases and values >= 2^1024
        ws.push(1025);
        ws.push(2048);
    }
    ws.sort();
    ws.dedup();
    for bits in ws {
        let m = pow2(bits);
        let mut bases: Vec<BigUint> = [2u64, 3, 5, 7, 10, 255, 256, (1 << 32) - 1, 1 << 32, (1 << 32) + 1, u64::MAX].iter().map(|x| BigUint::from(*x)).collect();
        bases.push(pow2(bits / 2) - 1u32);
        bases.push(pow2(bits / 2) + 1u32);
        bases.retain(|b| b < &m && b >= &BigUint::from(2u32));
        bases.sort();
        bases.dedup();
        // (value, base) for log; (value, degree) for root; (base, exp) for pow
        let mut logc: Vec<[V; 2]> = vec![];
        let mut rootc: Vec<[V; 2]> = vec![];
        let mut powc: Vec<[V; 2]> = vec![];
        for b in &bases {
            let mut p = BigUint::one();
            let mut k = 0usize;
            loop {
                // p = b^k < m
                for delta in [-1i32, 0, 1] {
                    let v = if delta < 0 { if p.is_zero() { continue } else { &p - 1u32 } } else { &p + delta as u32 };
                    if v >= m {
                        continue;
                    }
                    for bb in [b - 1u32, b.clone(), b + 1u32] {
                        if bb < m {
                            logc.push([u(&v, bits), u(&bb, bits)]);
                        }
                    }
                    for d in [k.saturating_sub(1), k, k + 1] {
                        if d >= 1 {
                            rootc.push([u(&v, bits), V::n(d)]);
                        }
                    }
                }
                for kk in [k, k + 1] {
                    powc.push([u(b, bits), u(&BigUint::from(kk), bits.max(1)).clone()]);
                }
                p *= b;
                k += 1;
                if p >= m {
                    break;
                }
            }
        }
        // roots R just below 2^64 / degree (the Newton numerator (d-1) R + v / R^(d-1) ~ d R then just fits one limb): R^d + delta
        if bits >= 128 {
            for d in 2usize..=(bits / 58).min(40) {
                let top = (BigUint::from(u64::MAX) / BigUint::from(d as u64)).iter_u64_digits().next().unwrap_or(0);
                for rt in [top, top - 1, top - 2, top / 10 * 9, top / 4 * 3, 2_000_000_000_000_000_000u64.min(top)] {
                    let p = BigUint::from(rt).pow(d as u32);
                    for delta in [-1i32, 0, 1] {
                        let v = if delta < 0 { &p - 1u32 } else { &p + delta as u32 };
                        if v < m {
                            for dd in [d - 1, d, d + 1] {
                                if dd >= 1 {
                                    rootc.push([u(&v, bits), V::n(dd)]);
                                }
                            }
                        }
                    }
                }
            }
        }
        // every value of P(B) (all bit lengths, MAX and its neighbours) with the degrees at both ends of the range
        for v in pow2_nbhd(bits) {
            for d in [1usize, 2, 3, 4, 5, 7, 63, 64, 65, bits / 2, bits - 1, bits, bits + 1, bits + 2, (1 << 16) + 1, (1 << 31) - 1, 1 << 31, 1 << 32, (1 << 32) + 1, (1 << 32) + 2, (1 << 32) + bits / 2, (1 << 53) + 1, 1 << 63, usize::MAX - 1, usize::MAX] {
                if d >= 1 {
                    rootc.push([vu(&v), V::n(d)]);
                }
            }
        }
        // bases at and around the top of the width and of the f64 range, as log bases and arguments
        {
            let mut big_bases: Vec<BigUint> = vec![&m - 1u32, &m - 2u32, pow2(bits - 1), pow2(bits - 1) + 1u32, pow2(bits / 2), pow2(bits / 2 + 1) - 1u32];
            if bits > 1024 {
                big_bases.extend([pow2(1023), pow2(1024) - pow2(970), pow2(1024) - 1u32, pow2(1024), pow2(1024) + 1u32, pow2(1025)]);
            }
            for b in &big_bases {
                if b >= &m || b < &BigUint::from(2u32) {
                    continue;
                }
                for v in [b - 1u32, b.clone(), b + 1u32, &m - 1u32, b * 2u32, b * b, b * b - 1u32] {
                    if v < m && !v.is_zero() {
                        logc.push([u(&v, bits), u(b, bits)]);
                    }
                }
            }
        }
        // pow arguments must have width `bits`: rebuild exponent limbs at that width
        let powc: Vec<[V; 2]> = powc
            .into_iter()
            .filter_map(|[a, e]| {
                let ev = big(e.limbs());
                if ev < m { Some([a, u(&ev, bits)]) } else { None }
            })
            .collect();
        let mut powc = powc;
        for base in [BigUint::zero(), BigUint::one(), BigUint::from(2u32), BigUint::from(3u32), &m - 1u32, &m - 2u32, pow2(bits / 2), pow2(bits - 1)] {
            if base >= m {
                continue;
            }
            for e in pow2_nbhd(bits) {
                powc.push([u(&base, bits), vu(&e)]);
            }
        }
        for (name, cases, ops) in [("log b^k+d", &mut logc, &lg[..]), ("root b^k+d", &mut rootc, &[Op::root][..]), ("pow", &mut powc, &pw[..])] {
            cases.sort();
            cases.dedup();
            let cases = &*cases;
            r.universe(&format!("{name} ({} cases)", cases.len()), bits, cases.len(), |i, l| {
                l.states(1);
                for &op in ops {
                    exec(l, bits, op, &cases[i][..]);
                }
            });
        }
        let (pu, _) = (pow2_nbhd(bits), ());
        unary(r, &format!("P({bits}) log2/log10"), bits, &pu, &lg1);
    }
    // one GIANT width (65 536 bits = 1024 limbs): root and log start from a floating-point estimate whose absolute error
    // grows with the bit length; ordinary dense values and perfect powers +- 1, low degrees and ordinary bases
    for bits in if SWEEP { vec![] } else { vec![65_536usize, 131_072] } {
        let n = nlimbs(bits);
        let g = golden(2 * n + 8);
        let mut vals: Vec<BigUint> = vec![];
        for k in 0..24usize {
            // dense values of full length with different leading limbs
            let mut v: Limbs = (0..n).map(|i| g[(i + 3 * k) % g.len()] ^ (k as u64).wrapping_mul(0x0101_0101_0101_0101)).collect();
            v[n - 1] = match k % 6 { 0 => u64::MAX, 1 => 1 << 63, 2 => (1 << 63) - 1, 3 => 1, 4 => g[k], _ => 0x5555_5555_5555_5555 };
            vals.push(big(&v));
        }
        for k in 0..6usize {
            // perfect squares / cubes of dense values, and their neighbours
            let x: Limbs = (0..n / 2).map(|i| g[(i + 5 * k) % g.len()] | 1).collect();
            let y: Limbs = (0..n / 3).map(|i| g[(i + 7 * k) % g.len()] | 1).collect();
            let (x, y) = (big(&x), big(&y));
            for p in [&x * &x, &y * &y * &y] {
                vals.extend([&p - 1u32, p.clone(), &p + 1u32]);
            }
        }
        // powers of small bases just below the width, and their neighbours (the logarithm itself is then above 2^15 / 2^16:
        // one ulp of a double at that size is larger than any fixed small margin)
        for b in [3u32, 7, 10] {
            let kmax = (bits as f64 / (b as f64).log2()).floor() as u32;
            for k in [kmax - 1, kmax - 2, kmax - 3, kmax - 1000, kmax / 2 + 1, 65_600u32.min(kmax - 4), 65_601u32.min(kmax - 5)] {
                let p = BigUint::from(b).pow(k);
                if p.bits() as usize <= bits {
                    vals.extend([&p - 1u32, p.clone(), &p + 1u32]);
                }
            }
        }
        vals.push(pow2(bits) - 1u32);
        vals.push(pow2(bits - 1));
        vals.sort();
        vals.dedup();
        let lv: Vec<Limbs> = vals.iter().map(|v| to_limbs(v, bits)).collect();
        r.universe(&format!("GIANT U{bits}: root of {} dense values / perfect powers +- 1 with degrees 2, 3, 5, 7, 64; log to bases 3, 10, 2^64-1, 2^1000+1", lv.len()), bits, lv.len(), |i, l| {
            let a = vu(&lv[i]);
            l.states(1);
            for d in [2usize, 3, 5, 7, 64] {
                exec(l, bits, Op::root, &[a.clone(), V::n(d)]);
            }
            // HIGH degrees with a small root: the float estimate lands on the root, the first Newton step overshoots and the
            // decreasing phase walks down one by one - the longest runs of the iteration
            // (the cases do not depend on `a`: index i < 8 carries the i-th root, so that the eight run in parallel)
            if i < 8 {
                for r0 in [[2u32, 3, 61, 87, 100, 200, 1000, 65_537][i]] {
                    let d = ((bits as f64) * 0.97 / ((r0 + 1) as f64).log2()) as usize;
                    let lo = BigUint::from(r0).pow(d as u32);
                    let hi = BigUint::from(r0 + 1).pow(d as u32);
                    // just below (r0 + 1/2)^d: the window in which the float estimate rounds to the root itself
                    let mid = BigUint::from(2 * r0 + 1).pow(d as u32) >> d;
                    for v in [&hi - 1u32, lo.clone() + 1u32, (&lo + &hi) >> 1usize, lo.clone(), &hi - (&hi >> 7usize), &mid - 1u32, &mid - (&mid >> 12usize), &mid - (&mid >> 6usize), &mid + (&mid >> 12usize)] {
                        if v.bits() as usize <= bits {
                            exec(l, bits, Op::root, &[V::U(to_limbs(&v, bits)), V::n(d)]);
                            exec(l, bits, Op::root, &[V::U(to_limbs(&v, bits)), V::n(d + 1)]);
                        }
                    }
                }
            }
            for b in [BigUint::from(3u32), BigUint::from(7u32), BigUint::from(10u32), BigUint::from(u64::MAX), pow2(1000) + 1u32] {
                exec(l, bits, Op::log, &[a.clone(), V::U(to_limbs(&b, bits))]);
            }
            exec(l, bits, Op::log2, &[a.clone()]);
            exec(l, bits, Op::log10, &[a.clone()]);
        });
    }
}

fn main() {
    let (prop, tier, seed, replay_path) = args_env();
    if let Some(p) = replay_path {
        std::process::exit(replay(&p));
    }
    let r = Runner::new(if SWEEP { "mc_arith_sweep" } else { "mc_arith" }, &prop, &tier, seed);
    if SWEEP {
        r.assume("WIDTH SWEEP: the same checks instantiated at every width 0..=136 and within 2 of every limb boundary up to 1024 bits, on budgeted universes (P(B), run shapes, small alphabets)");
    }
    r.assume("x86_64, 64-bit usize, harness profile = release + debug-assertions + overflow-checks (the semantics of the cargo test profile)");
    r.assume("reference model: num-bigint 0.4 BigUint arithmetic; values cross the boundary only as raw limbs");
    r.assume("at >= 2 limbs the limb values are drawn from the stated alphabets (all coincidences of extreme limbs), not from all 2^64 values");
    match prop.as_str() {
        "C01" => c01(&r),
        "C02" => c02(&r),
        "C03" => c03(&r),
        "C10" => c10(&r),
        "C13" => c13(&r),
        _ => {
            eprintln!("mc_arith: unknown property '{prop}' (C01 C02 C03 C10 C13)");
            std::process::exit(2);
        }
    }
    std::process::exit(r.finish());
}
