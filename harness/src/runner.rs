//! Non-generic engine: parallel exhaustive enumeration of indexed universes, outcome
//! comparison against the reference model, watchdog, violations / replay files,
//! known findings, evidence.

use crate::v::{rust_lit, take_noncanon, V};
use rayon::prelude::*;
use serde_json::{json, Value as J};
use std::cell::RefCell;
use std::collections::BTreeMap;
use std::panic::{catch_unwind, AssertUnwindSafe};
use std::sync::atomic::{AtomicBool, AtomicU64, Ordering};
use std::sync::{Arc, Mutex};
use std::time::{Duration, Instant};

pub enum Exp {
    /// exactly this outcome
    Is(V),
    /// any of these outcomes
    AnyOf(Vec<V>),
    /// outcome must satisfy the predicate (description for reports)
    Pred(String, Box<dyn Fn(&V) -> bool>),
    /// the property makes no claim for this case (don't-care zone); only
    /// non-termination and non-canonical results are still reported
    Any,
}

pub struct Expect {
    pub exp: Exp,
    /// non-trivial by the property's interest predicate
    pub nt: bool,
}
pub fn is(v: V) -> Expect {
    Expect { exp: Exp::Is(v), nt: false }
}
pub fn any_of(v: Vec<V>) -> Expect {
    Expect { exp: Exp::AnyOf(v), nt: false }
}
pub fn pred(d: &str, f: impl Fn(&V) -> bool + 'static) -> Expect {
    Expect { exp: Exp::Pred(d.to_string(), Box::new(f)), nt: false }
}
pub fn dont_care() -> Expect {
    Expect { exp: Exp::Any, nt: false }
}
impl Expect {
    pub fn nt(mut self, b: bool) -> Self {
        self.nt = b;
        self
    }
    fn describe(&self) -> J {
        match &self.exp {
            Exp::Is(v) => v.to_json(),
            Exp::AnyOf(v) => json!({"any_of": v.iter().map(V::to_json).collect::<Vec<_>>()}),
            Exp::Pred(d, _) => json!({"predicate": d}),
            Exp::Any => json!("any"),
        }
    }
    fn accepts(&self, got: &V) -> bool {
        match &self.exp {
            Exp::Is(v) => v == got,
            Exp::AnyOf(v) => v.iter().any(|x| x == got),
            Exp::Pred(_, f) => !matches!(got, V::Timeout) && f(got),
            Exp::Any => !matches!(got, V::Timeout),
        }
    }
}

#[derive(Clone, Debug)]
pub struct Violation {
    pub order: (usize, u64),
    pub universe: String,
    pub op: &'static str,
    pub src: &'static str,
    pub bits: usize,
    pub args: Vec<V>,
    pub expected: J,
    pub got: V,
    pub kind: &'static str,
    pub panic_msg: Option<String>,
}

#[derive(Default, Clone)]
pub struct Stats {
    pub states: u64,
    pub transitions: u64,
    pub nontrivial: u64,
    pub dont_care: u64,
}

struct Slot {
    busy_since_ms: AtomicU64, // 0 = idle
    desc: Mutex<(&'static str, &'static str, usize, Vec<V>)>,
}

thread_local! {
    static LAST_PANIC: RefCell<Option<String>> = const { RefCell::new(None) };
    /// true while the code under test runs inside `Local::guard` (its panics are outcomes, all others are machinery bugs)
    static IN_GUARD: std::cell::Cell<bool> = const { std::cell::Cell::new(false) };
    static MY_SLOT: RefCell<Option<Arc<Slot>>> = const { RefCell::new(None) };
}

pub struct Runner {
    pub prop: String,
    pub group: String,
    pub tier: String,
    pub seed: u64,
    pub start: Instant,
    pub wall_cap: Duration,
    pub horizon_ms: u64,
    pub max_violations: usize,
    expired: AtomicBool,
    slots: Mutex<Vec<Arc<Slot>>>,
    inner: Mutex<Inner>,
    cur_universe: Mutex<(usize, String)>,
    pub rule: Mutex<String>,
    pub assumptions: Mutex<Vec<String>>,
    pub extra: Mutex<BTreeMap<String, J>>,
}

#[derive(Default)]
struct Inner {
    stats: Stats,
    universes: Vec<J>,
    samples: Vec<J>,
    violations: Vec<Violation>,
    nviol: u64,
    classes: BTreeMap<&'static str, u16>,
    hooks: Vec<u64>,
    caps: Vec<String>,
    op_counts: BTreeMap<&'static str, u64>,
}

pub struct Local<'a> {
    pub r: &'a Runner,
    uidx: usize,
    uname: String,
    stats: Stats,
    samples: Vec<J>,
    violations: Vec<Violation>,
    nviol: u64,
    classes: BTreeMap<&'static str, u16>,
    op_counts: BTreeMap<&'static str, u64>,
    seq: u64,
    cur_index: usize,
    slot: Arc<Slot>,
}

/// VERIF_THIN=k: explore only every k-th outer index of each parallel universe (used for the second, no-assertion pass)
pub fn thin_factor() -> usize {
    std::env::var("VERIF_THIN").ok().and_then(|s| s.parse().ok()).unwrap_or(1)
}
/// the cargo profile this engine was built with, as told by the driver (recorded in replay files)
pub fn profile_name() -> String {
    std::env::var("VERIF_PROFILE").unwrap_or_else(|_| "release".to_string())
}

pub fn args_env() -> (String, String, u64, Option<String>) {
    // --prop Cxx [--tier quick|thorough] [--seed n] [--replay path]
    let a: Vec<String> = std::env::args().collect();
    let get = |k: &str| a.iter().position(|x| x == k).and_then(|i| a.get(i + 1)).cloned();
    let prop = get("--prop").unwrap_or_default();
    let tier = get("--tier").or_else(|| std::env::var("VERIF_TIER").ok()).unwrap_or_else(|| "quick".into());
    let tier = if tier == "thorough" { "thorough".to_string() } else { "quick".to_string() };
    let seed = get("--seed")
        .or_else(|| std::env::var("VERIF_SEED").ok())
        .and_then(|s| s.parse::<i128>().ok())
        .map(|s| s as u64)
        .unwrap_or(0);
    (prop, tier, seed, get("--replay"))
}

/// Root of the verification tree (default /verif; VERIF_ROOT is only used by scratch copies that
/// run the checks against a scratch copy of the repository, e.g. the seeded-change matrix).
pub fn verif_root() -> String {
    std::env::var("VERIF_ROOT").unwrap_or_else(|_| "/verif".to_string())
}

/// Run the code under test: its panics are outcomes (`Err`), not machinery failures.
pub fn guarded<R>(f: impl FnOnce() -> R) -> Result<R, ()> {
    let prev = IN_GUARD.with(|g| g.replace(true));
    let r = catch_unwind(AssertUnwindSafe(f));
    IN_GUARD.with(|g| g.set(prev));
    r.map_err(|_| ())
}

pub fn install_panic_hook() {
    std::panic::set_hook(Box::new(|info| {
        let msg = if let Some(s) = info.payload().downcast_ref::<&str>() {
            s.to_string()
        } else if let Some(s) = info.payload().downcast_ref::<String>() {
            s.clone()
        } else {
            "panic".to_string()
        };
        let loc = info.location().map(|l| format!(" at {}:{}", l.file(), l.line())).unwrap_or_default();
        if msg.starts_with("harness:") {
            // a bug in the machinery, never a verdict about the property
            eprintln!("MACHINERY-ERROR: {msg}{loc}");
            std::process::exit(2);
        }
        if !IN_GUARD.with(|g| g.get()) {
            // a panic outside the guarded call of the code under test: the machinery itself failed
            eprintln!("MACHINERY-ERROR: harness: unguarded panic: {msg}{loc}");
            std::process::exit(2);
        }
        LAST_PANIC.with(|p| *p.borrow_mut() = Some(format!("{msg}{loc}")));
    }));
}

impl Runner {
    pub fn new(group: &str, prop: &str, tier: &str, seed: u64) -> Arc<Runner> {
        install_panic_hook();
        // large worker stacks: values of the widest instantiated types (tens of kilobytes each) are passed by value
        let _ = rayon::ThreadPoolBuilder::new().stack_size(512 << 20).build_global();
        let cap = std::env::var("VERIF_WALL_CAP_S")
            .ok()
            .and_then(|s| s.parse().ok())
            .unwrap_or(if tier == "thorough" { 3 * 3600 } else { 600 });
        let r = Arc::new(Runner {
            prop: prop.to_string(),
            group: group.to_string(),
            tier: tier.to_string(),
            seed,
            start: Instant::now(),
            wall_cap: Duration::from_secs(cap),
            horizon_ms: std::env::var("VERIF_HORIZON_MS").ok().and_then(|s| s.parse().ok()).unwrap_or(20_000),
            max_violations: 5,
            expired: AtomicBool::new(false),
            slots: Mutex::new(vec![]),
            inner: Mutex::new(Inner::default()),
            cur_universe: Mutex::new((0, String::new())),
            rule: Mutex::new(String::new()),
            assumptions: Mutex::new(vec![]),
            extra: Mutex::new(BTreeMap::new()),
        });
        // watchdog
        let w = r.clone();
        std::thread::spawn(move || loop {
            std::thread::sleep(Duration::from_millis(250));
            let now = w.start.elapsed().as_millis() as u64;
            if w.start.elapsed() > w.wall_cap {
                w.expired.store(true, Ordering::Relaxed);
            }
            let slots = w.slots.lock().unwrap().clone();
            for s in slots {
                let b = s.busy_since_ms.load(Ordering::Acquire);
                if b != 0 && now.saturating_sub(b) > w.horizon_ms {
                    let d = s.desc.lock().unwrap().clone();
                    let v = Violation {
                        order: (0, 0),
                        universe: w.cur_universe.lock().unwrap().1.clone(),
                        op: d.0,
                        src: d.1,
                        bits: d.2,
                        args: d.3,
                        expected: json!("termination within the horizon"),
                        got: V::Timeout,
                        kind: "timeout",
                        panic_msg: None,
                    };
                    w.report_timeout(v);
                }
            }
        });
        r
    }

    pub fn is_thorough(&self) -> bool {
        self.tier == "thorough"
    }
    pub fn expired(&self) -> bool {
        self.expired.load(Ordering::Relaxed)
    }
    pub fn set_rule(&self, s: &str) {
        *self.rule.lock().unwrap() = s.to_string();
    }
    pub fn assume(&self, s: &str) {
        self.assumptions.lock().unwrap().push(s.to_string());
    }
    pub fn extra(&self, k: &str, v: J) {
        self.extra.lock().unwrap().insert(k.to_string(), v);
    }

    fn new_slot(&self) -> Arc<Slot> {
        MY_SLOT.with(|m| {
            let mut m = m.borrow_mut();
            if let Some(s) = m.as_ref() {
                return s.clone();
            }
            let s = Arc::new(Slot { busy_since_ms: AtomicU64::new(0), desc: Mutex::new(("", "", 0, vec![])) });
            self.slots.lock().unwrap().push(s.clone());
            *m = Some(s.clone());
            s
        })
    }

    /// Enumerate the indexed universe `0..n` completely, in parallel. `f(i, local)` must
    /// perform every case that belongs to index `i`.
    pub fn universe<F>(&self, name: &str, bits: usize, n: usize, f: F)
    where
        F: Fn(usize, &mut Local) + Sync,
    {
        let uidx = {
            let mut c = self.cur_universe.lock().unwrap();
            c.0 += 1;
            c.1 = name.to_string();
            c.0
        };
        let t0 = Instant::now();
        let before = self.inner.lock().unwrap().stats.clone();
        let skipped = AtomicU64::new(0);
        // thin mode (the no-assertion pass of the quick tier): every k-th index of the outer enumeration, inner loops complete
        let thin = thin_factor();
        (0..n).into_par_iter().for_each_init(
            || self.local(uidx, name),
            |l, i| {
                if thin > 1 && i % thin != 0 && i + 1 != n {
                    return;
                }
                if self.expired() {
                    skipped.fetch_add(1, Ordering::Relaxed);
                    return;
                }
                l.cur_index = i;
                f(i, l);
            },
        );
        self.collect_hooks();
        let mut inner = self.inner.lock().unwrap();
        let sk = skipped.load(Ordering::Relaxed);
        if sk > 0 {
            inner.caps.push(format!("wall cap hit in universe '{name}': {sk} of {n} indices not explored"));
        }
        let st = inner.stats.clone();
        inner.universes.push(json!({
            "name": name, "bits": bits, "indices": n, "thinned_to_every": thin,
            "states": st.states - before.states,
            "transitions": st.transitions - before.transitions,
            "nontrivial": st.nontrivial - before.nontrivial,
            "exhaustive": sk == 0 && thin <= 1,
            "wall_s": (t0.elapsed().as_secs_f64() * 1000.0).round() / 1000.0,
        }));
    }

    /// Sequential variant (for tiny universes or non-Sync state).
    pub fn universe_seq<F>(&self, name: &str, bits: usize, f: F)
    where
        F: FnOnce(&mut Local),
    {
        let uidx = {
            let mut c = self.cur_universe.lock().unwrap();
            c.0 += 1;
            c.1 = name.to_string();
            c.0
        };
        let t0 = Instant::now();
        let before = self.inner.lock().unwrap().stats.clone();
        {
            let mut l = self.local(uidx, name);
            f(&mut l);
        }
        self.collect_hooks();
        let mut inner = self.inner.lock().unwrap();
        let st = inner.stats.clone();
        inner.universes.push(json!({
            "name": name, "bits": bits, "indices": 1,
            "states": st.states - before.states,
            "transitions": st.transitions - before.transitions,
            "nontrivial": st.nontrivial - before.nontrivial,
            "exhaustive": true,
            "wall_s": (t0.elapsed().as_secs_f64() * 1000.0).round() / 1000.0,
        }));
    }

    fn local(&self, uidx: usize, name: &str) -> Local<'_> {
        Local {
            r: self,
            uidx,
            uname: name.to_string(),
            stats: Stats::default(),
            samples: vec![],
            violations: vec![],
            nviol: 0,
            classes: BTreeMap::new(),
            op_counts: BTreeMap::new(),
            seq: 0,
            cur_index: 0,
            slot: self.new_slot(),
        }
    }

    fn collect_hooks(&self) {
        let all: Vec<Vec<u64>> = rayon::broadcast(|_| ruint::verif_hooks::take().to_vec());
        let mine = ruint::verif_hooks::take().to_vec();
        let mut inner = self.inner.lock().unwrap();
        if inner.hooks.is_empty() {
            inner.hooks = vec![0; mine.len()];
        }
        for v in all.iter().chain(std::iter::once(&mine)) {
            for (a, b) in inner.hooks.iter_mut().zip(v) {
                *a += b;
            }
        }
    }

    pub fn note_cap(&self, s: &str) {
        self.inner.lock().unwrap().caps.push(s.to_string());
    }

    fn replay_path(&self, v: &Violation) -> String {
        use std::hash::{Hash, Hasher};
        let mut h = std::collections::hash_map::DefaultHasher::new();
        v.op.hash(&mut h);
        v.bits.hash(&mut h);
        v.args.hash(&mut h);
        let dir = format!("{}/replays/{}", verif_root(), self.prop);
        let _ = std::fs::create_dir_all(&dir);
        let opn: String = v.op.chars().map(|c| if c.is_ascii_alphanumeric() { c } else { '_' }).collect();
        format!("{dir}/{}-{}-{:016x}.json", opn, v.bits, h.finish())
    }

    fn write_replay(&self, v: &Violation) -> String {
        let path = self.replay_path(v);
        let nl = crate::v::nlimbs(v.bits);
        let mut repro = format!(
            "#[test]\nfn repro() {{\n    #![allow(unused, non_camel_case_types)]\n    use ruint::*;\n    const B: usize = {}; const L: usize = {};\n    type U = Uint<B, L>; type N = usize; type W = u64; type BY = Vec<u8>; type ST = String; type LS = Vec<u64>;\n",
            v.bits, nl
        );
        for (i, a) in v.args.iter().enumerate() {
            repro.push_str(&format!("    let a{i} = {};\n", rust_lit(a, v.bits)));
        }
        repro.push_str(&format!(
            "    let f = {};\n    let got = f({});\n    // observed: {:?}\n    // expected: {}\n}}\n",
            v.src,
            (0..v.args.len()).map(|i| format!("a{i}")).collect::<Vec<_>>().join(", "),
            v.got,
            v.expected
        ));
        let j = json!({
            "property": self.prop, "group": self.group, "profile": profile_name(), "universe": v.universe, "op": v.op, "op_src": v.src,
            "bits": v.bits, "args": v.args.iter().map(V::to_json).collect::<Vec<_>>(),
            "expected": v.expected, "observed": v.got.to_json(), "kind": v.kind,
            "panic_message": v.panic_msg, "rust_repro": repro,
        });
        let _ = std::fs::write(&path, serde_json::to_string_pretty(&j).unwrap());
        path
    }

    fn report_timeout(&self, v: Violation) -> ! {
        let path = self.write_replay(&v);
        let known = known_match(&self.prop, &v);
        if let Some(what) = &known {
            println!("KNOWN-FINDING: property={} {what}", self.prop);
        } else {
            println!("VIOLATION property={} replay={path}", self.prop);
        }
        println!("  timeout: op={} bits={} args={:?} did not return within {} ms", v.op, v.bits, v.args, self.horizon_ms);
        {
            let mut inner = self.inner.lock().unwrap();
            inner.caps.push("aborted by watchdog: a case did not terminate".into());
            inner.nviol += 1;
            inner.violations.push(v);
        }
        let viol = if known.is_some() { 0 } else { 1 };
        self.write_evidence(viol, false);
        std::process::exit(if known.is_some() { 3 } else { 1 });
    }

    fn write_evidence(&self, violations: u64, complete: bool) {
        let inner = self.inner.lock().unwrap();
        let names = ruint::verif_hooks::NAMES;
        let mut hooks = serde_json::Map::new();
        let mut unreached = vec![];
        for (i, n) in names.iter().enumerate() {
            let c = inner.hooks.get(i).copied().unwrap_or(0);
            hooks.insert(n.to_string(), json!(c));
            if c == 0 {
                unreached.push(n.to_string());
            }
        }
        let exhaustive = complete && inner.caps.is_empty();
        let nclasses: u32 = inner.classes.values().map(|m| m.count_ones()).sum();
        let mut coverage = json!({
            "states": inner.stats.states,
            "transitions": inner.stats.transitions,
            "traces_validated_against_impl": inner.stats.transitions,
            "evaluations": inner.stats.transitions,
            "distinct_nontrivial": inner.stats.nontrivial,
            "dont_care_cases": inner.stats.dont_care,
            "rule": *self.rule.lock().unwrap(),
            "samples": inner.samples,
            "exhaustive": exhaustive,
            "universes": inner.universes,
            "entry_points": inner.op_counts.iter().map(|(k, v)| json!({"op": k, "executions": v})).collect::<Vec<_>>(),
            "outcome_classes": nclasses,
            "hook_counters": hooks,
            "unreached_hooks": unreached,
            "caps_hit": inner.caps,
            "explanation": "exhaustive enumeration of the listed finite universes on the real code; every execution compared with the reference model (traces_validated_against_impl = transitions because the exploration runs on the implementation itself)",
        });
        for (k, v) in self.extra.lock().unwrap().iter() {
            coverage[k] = v.clone();
        }
        let ev = json!({
            "property_id": self.prop,
            "tier": self.tier,
            "seed": self.seed as i64,
            "level": "model_checking",
            "coverage": coverage,
            "assumptions": *self.assumptions.lock().unwrap(),
            "wall_s": (self.start.elapsed().as_secs_f64() * 1000.0).round() / 1000.0,
            "violations": violations,
        });
        let _ = std::fs::create_dir_all(format!("{}/evidence/aux", verif_root()));
        let path = match std::env::var("VERIF_EVIDENCE_SUFFIX") {
            Ok(s) if !s.is_empty() => format!("{}/evidence/aux/{}{}.json", verif_root(), self.prop, s),
            _ => format!("{}/evidence/{}.json", verif_root(), self.prop),
        };
        std::fs::write(&path, serde_json::to_string_pretty(&ev).unwrap()).expect("harness: cannot write evidence");
    }

    /// Finish: report, write evidence, return the process exit code.
    pub fn finish(&self) -> i32 {
        let mut viols = {
            let mut inner = self.inner.lock().unwrap();
            std::mem::take(&mut inner.violations)
        };
        viols.sort_by(|a, b| a.order.cmp(&b.order));
        let total = self.inner.lock().unwrap().nviol;
        let mut real = 0u64;
        let mut printed = 0;
        let mut known_printed: Vec<String> = vec![];
        for v in &viols {
            if let Some(what) = known_match(&self.prop, v) {
                if !known_printed.contains(&what) {
                    println!("KNOWN-FINDING: property={} {what}", self.prop);
                    known_printed.push(what);
                }
                continue;
            }
            real += 1;
            if printed < self.max_violations {
                let path = self.write_replay(v);
                println!("VIOLATION property={} replay={path}", self.prop);
                println!(
                    "  [{}] op={} bits={} kind={} args={} expected={} observed={}{}",
                    v.universe,
                    v.op,
                    v.bits,
                    v.kind,
                    trunc(&format!("{:?}", v.args), 300),
                    trunc(&v.expected.to_string(), 300),
                    trunc(&format!("{:?}", v.got), 300),
                    v.panic_msg.as_ref().map(|m| format!(" panic='{}'", trunc(m, 200))).unwrap_or_default()
                );
                printed += 1;
            }
        }
        if std::env::var("VERIF_CLASSES").is_ok() {
            let mut classes: BTreeMap<(String, usize, &'static str), (usize, String)> = BTreeMap::new();
            for v in &viols {
                let e = classes.entry((v.op.to_string(), v.bits, v.kind)).or_insert((0, format!("args={} expected={} observed={:?}", trunc(&format!("{:?}", v.args), 200), trunc(&v.expected.to_string(), 200), v.got)));
                e.0 += 1;
            }
            for ((op, bits, kind), (n, ex)) in classes {
                println!("  CLASS op={op} bits={bits} kind={kind} kept={n} e.g. {}", trunc(&ex, 500));
            }
        }
        if total as usize > viols.len() {
            println!("  ({} violating executions in total; {} kept)", total, viols.len());
        }
        self.write_evidence(real, true);
        let inner = self.inner.lock().unwrap();
        println!(
            "{} tier={} seed={} states={} transitions={} nontrivial={} universes={} violations={} known={} wall={:.1}s{}",
            self.prop,
            self.tier,
            self.seed,
            inner.stats.states,
            inner.stats.transitions,
            inner.stats.nontrivial,
            inner.universes.len(),
            real,
            known_printed.len(),
            self.start.elapsed().as_secs_f64(),
            if inner.caps.is_empty() { String::new() } else { format!(" CAPS={:?}", inner.caps) }
        );
        if real > 0 {
            1
        } else {
            0
        }
    }
}

fn trunc(s: &str, n: usize) -> String {
    if s.len() <= n {
        s.to_string()
    } else {
        let mut e = n;
        while !s.is_char_boundary(e) {
            e -= 1;
        }
        format!("{}…", &s[..e])
    }
}

impl<'a> Drop for Local<'a> {
    fn drop(&mut self) {
        let mut inner = self.r.inner.lock().unwrap();
        inner.stats.states += self.stats.states;
        inner.stats.transitions += self.stats.transitions;
        inner.stats.nontrivial += self.stats.nontrivial;
        inner.stats.dont_care += self.stats.dont_care;
        inner.nviol += self.nviol;
        for (k, v) in &self.classes {
            *inner.classes.entry(k).or_insert(0) |= v;
        }
        for (k, v) in &self.op_counts {
            *inner.op_counts.entry(k).or_insert(0) += v;
        }
        let per_universe = inner.samples.iter().filter(|s| s["universe"] == self.uname.as_str()).count();
        if inner.samples.len() < 80 {
            for s in self.samples.drain(..).take(3usize.saturating_sub(per_universe)) {
                inner.samples.push(s);
            }
        }
        inner.violations.append(&mut self.violations);
        if inner.violations.len() > 4000 {
            inner.violations.sort_by(|a, b| a.order.cmp(&b.order));
            // keep the earliest, but at least a few of every (op, bits) class
            let mut seen: BTreeMap<(&'static str, usize), usize> = BTreeMap::new();
            let mut kept = 0usize;
            inner.violations.retain(|v| {
                let c = seen.entry((v.op, v.bits)).or_insert(0);
                *c += 1;
                kept += 1;
                kept <= 1000 || *c <= 3
            });
        }
    }
}

impl<'a> Local<'a> {
    /// Count `n` distinct input states (operand tuples).
    #[inline]
    pub fn states(&mut self, n: u64) {
        self.stats.states += n;
    }

    /// Account for `n` executions that were compared in a tight loop by the caller (all passed);
    /// `nt` of them non-trivial. Failing executions of such loops go through `record`.
    pub fn bulk(&mut self, op: &'static str, n: u64, nt: u64, class_mask: u16) {
        self.stats.transitions += n;
        self.stats.nontrivial += nt;
        *self.op_counts.entry(op).or_insert(0) += n;
        *self.classes.entry(op).or_insert(0) |= class_mask;
    }

    /// Run the implementation under the watchdog and `catch_unwind`.
    #[inline]
    pub fn guard(&mut self, op: &'static str, src: &'static str, bits: usize, args: &[V], f: impl FnOnce() -> V) -> V {
        {
            let mut d = self.slot.desc.lock().unwrap();
            d.0 = op;
            d.1 = src;
            d.2 = bits;
            d.3.clear();
            d.3.extend_from_slice(args);
        }
        let now = (self.r.start.elapsed().as_millis() as u64).max(1);
        self.slot.busy_since_ms.store(now, Ordering::Release);
        let _ = take_noncanon();
        IN_GUARD.with(|g| g.set(true));
        let r = catch_unwind(AssertUnwindSafe(f));
        IN_GUARD.with(|g| g.set(false));
        self.slot.busy_since_ms.store(0, Ordering::Release);
        match r {
            Ok(v) => v,
            Err(_) => V::Panic,
        }
    }

    /// Compare an observed outcome with the reference model's expectation.
    pub fn record(&mut self, op: &'static str, src: &'static str, bits: usize, args: &[V], got: V, e: Expect) {
        let noncanon = take_noncanon();
        self.stats.transitions += 1;
        self.seq += 1;
        *self.op_counts.entry(op).or_insert(0) += 1;
        if e.nt {
            self.stats.nontrivial += 1;
        }
        if matches!(e.exp, Exp::Any) {
            self.stats.dont_care += 1;
        }
        *self.classes.entry(op).or_insert(0) |= 1u16 << got.class();
        if self.samples.len() < 3 && (self.seq == 1 || (e.nt && self.seq % 97 == 3)) {
            self.samples.push(json!({
                "universe": self.uname, "op": op, "bits": bits,
                "args": args.iter().map(V::to_json).collect::<Vec<_>>(),
                "observed": got.to_json(), "nontrivial": e.nt,
            }));
        }
        let ok = e.accepts(&got);
        if ok && !noncanon {
            return;
        }
        let kind = if noncanon {
            "noncanonical"
        } else {
            match (&got, &e.exp) {
                (V::Panic, _) => "panic",
                (V::Timeout, _) => "timeout",
                (_, Exp::Is(V::Panic)) => "missing-panic",
                (V::None | V::Err(_), _) => "unexpected-reject",
                (V::Some(_) | V::Ok(_), Exp::Is(V::None | V::Err(_))) => "unexpected-accept",
                _ => "wrong-value",
            }
        };
        self.nviol += 1;
        if self.violations.len() < 50 || self.violations.iter().filter(|v| v.op == op && v.bits == bits).count() < 3 {
            let pm = if matches!(got, V::Panic) { LAST_PANIC.with(|p| p.borrow().clone()) } else { None };
            self.violations.push(Violation {
                order: (self.uidx, (self.cur_index as u64) << 20 | (self.seq & 0xfffff)),
                universe: self.uname.clone(),
                op,
                src,
                bits,
                args: args.to_vec(),
                expected: e.describe(),
                got,
                kind,
                panic_msg: pm,
            });
        }
    }
}

// ---------------------------------------------------------------- known findings

fn known_match(prop: &str, v: &Violation) -> Option<String> {
    let txt = std::fs::read_to_string(format!("{}/known_findings.json", verif_root())).ok()?;
    let j: J = serde_json::from_str(&txt).ok()?;
    for f in j["findings"].as_array()? {
        if f["status"] != "known" || f["property"] != prop {
            continue;
        }
        let ops_ok = f["entry_points"].as_array().map(|a| a.iter().any(|o| o == v.op)).unwrap_or(false);
        let kind_ok = f["kind"].is_null() || f["kind"] == v.kind;
        let bits_ok = f["bits"].as_array().map(|a| a.iter().any(|b| b.as_u64() == Some(v.bits as u64))).unwrap_or(true);
        if ops_ok && kind_ok && bits_ok {
            return Some(format!(
                "{} [{}]",
                f["what"].as_str().unwrap_or("known finding"),
                f["id"].as_str().unwrap_or("?")
            ));
        }
    }
    None
}

// ---------------------------------------------------------------- replay

pub struct ReplayCase {
    pub prop: String,
    pub op: String,
    pub bits: usize,
    pub args: Vec<V>,
}

pub fn load_replay(path: &str) -> Result<ReplayCase, String> {
    let txt = std::fs::read_to_string(path).map_err(|e| format!("{path}: {e}"))?;
    let j: J = serde_json::from_str(&txt).map_err(|e| e.to_string())?;
    let mut args = vec![];
    for a in j["args"].as_array().ok_or("args")? {
        args.push(V::from_json(a)?);
    }
    Ok(ReplayCase {
        prop: j["property"].as_str().ok_or("property")?.to_string(),
        op: j["op"].as_str().ok_or("op")?.to_string(),
        bits: j["bits"].as_u64().ok_or("bits")? as usize,
        args,
    })
}

/// Replay one case twice through `run` (which returns (observed, accepted, expected-description)),
/// require identical observations, print the verdict, and return the exit code.
pub fn replay_verdict(case: &ReplayCase, run: impl Fn(&ReplayCase) -> (V, bool, String)) -> i32 {
    install_panic_hook();
    let (g1, ok1, exp) = run(case);
    let (g2, ok2, _) = run(case);
    if g1 != g2 || ok1 != ok2 {
        println!("REPLAY-NONDETERMINISTIC: first={g1:?} second={g2:?}");
        return 2;
    }
    println!("replay op={} bits={} args={:?}", case.op, case.bits, case.args);
    println!("  expected: {exp}");
    println!("  observed: {g1:?}");
    if ok1 {
        println!("REPLAY-PASS property={}", case.prop);
        0
    } else {
        println!("REPLAY-VIOLATION property={}", case.prop);
        1
    }
}

pub fn describe_expect(e: &Expect) -> String {
    e.describe().to_string()
}
pub fn accepts(e: &Expect, got: &V) -> bool {
    e.accepts(got)
}
