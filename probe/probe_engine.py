#!/usr/bin/env python3
"""E3: bounded exhaustive exploration of a PROGRAM space through the real compiler and macro.

Serves C19 (uint! literals) and C04 part 4 (ill-formed (BITS, LIMBS) pairs). Every program of the
bounded space is generated, compiled with rustc against the ruint rlib / ruint-macro .so that cargo
just built from /repo's working tree, and classified: rejected at compile time / compiles and panics /
compiles and yields a value. Expected classes and values come from a reference model on Python ints.
"""
import concurrent.futures as cf
import glob
import hashlib
import json
import os
import shutil
import subprocess
import sys
import time

ROOT = os.path.dirname(os.path.dirname(os.path.abspath(__file__)))
HARNESS = os.path.join(ROOT, "harness")
WORK = os.path.join(ROOT, "probe", "work")
DEPS = os.path.join(ROOT, "target", "release", "deps")
EXTERN_CRATES = ["ruint", "bytemuck", "proptest", "arbitrary", "quickcheck", "num_traits", "num_bigint", "serde_json", "rlp", "alloy_rlp", "borsh",
                 "parity_scale_codec", "ssz", "der", "bincode", "rand"]
_artifacts = None


def env():
    e = dict(os.environ)
    e["CARGO_NET_OFFLINE"] = "true"
    return e


_artifacts_by_profile = {}


def artifacts(profile="release"):
    """Ask cargo for the exact artefacts it built from the current /repo tree."""
    global _artifacts
    if profile == "release" and _artifacts is not None:
        return _artifacts
    if profile in _artifacts_by_profile:
        return _artifacts_by_profile[profile]
    p = subprocess.run(["cargo", "build", "--profile", profile, "--offline", "--lib", "--message-format=json"], cwd=HARNESS, env=env(),
                       stdout=subprocess.PIPE, stderr=subprocess.PIPE, text=True)
    if p.returncode != 0:
        sys.stdout.write(p.stderr[-4000:])
        raise RuntimeError("cargo build failed")
    cands = {}
    for line in p.stdout.splitlines():
        try:
            m = json.loads(line)
        except ValueError:
            continue
        if m.get("reason") != "compiler-artifact":
            continue
        name = m["target"]["name"].replace("-", "_")
        pkg = m.get("package_id", "")
        if name == "rand" and "@0.9" not in pkg:
            continue  # ruint's `random_with` (rand-09 feature) is the one probed
        for f in m.get("filenames", []):
            if f.endswith(".rlib") or f.endswith(".so"):
                # the same crate version can be built twice (host / target feature sets): the richer one is the normal dependency
                cands.setdefault(name, []).append((len(m.get("features", [])), f))
    arts = {k: sorted(v)[-1][1] for k, v in cands.items()}
    _artifacts_by_profile[profile] = arts
    if profile == "release":
        _artifacts = arts
    return arts


def setup():
    try:
        a = artifacts()
    except RuntimeError:
        return False
    return "ruint" in a


def rustc(src, out, profile="release"):
    a = artifacts(profile)
    deps = DEPS if profile == "release" else os.path.join(ROOT, "target", profile, "deps")
    onoff = "on" if profile == "release" else "off"
    cmd = ["rustc", "--edition", "2021", "-L", "dependency=" + deps, "-A", "warnings", "-C", f"debug-assertions={onoff}", "-C", f"overflow-checks={onoff}"]
    if profile != "release":
        cmd += ["-C", "opt-level=2"]
    for c in EXTERN_CRATES:
        if c in a:
            cmd += ["--extern", f"{c}={a[c]}"]
    cmd += [src, "-o", out]
    p = subprocess.run(cmd, stdout=subprocess.PIPE, stderr=subprocess.PIPE, text=True)
    return p.returncode, p.stderr


def run_bin(path, timeout=60):
    try:
        q = subprocess.run([path], stdout=subprocess.PIPE, stderr=subprocess.PIPE, text=True, timeout=timeout)
        return q.returncode, q.stdout, q.stderr
    except subprocess.TimeoutExpired:
        return -9, "", "timeout"


def fresh_workdir(tag):
    d = os.path.join(WORK, tag)
    shutil.rmtree(d, ignore_errors=True)
    os.makedirs(d, exist_ok=True)
    return d


def write_replay(prop, key, payload):
    d = os.path.join(ROOT, "replays", prop)
    os.makedirs(d, exist_ok=True)
    h = hashlib.sha1(key.encode()).hexdigest()[:16]
    path = os.path.join(d, f"probe-{h}.json")
    payload = dict(payload)
    payload.update({"property": prop, "group": "probe"})
    json.dump(payload, open(path, "w"), indent=1)
    return path


def known(prop, what):
    try:
        kf = json.load(open(os.path.join(ROOT, "known_findings.json")))
    except Exception:  # noqa
        return None
    for f in kf.get("findings", []):
        if f.get("status") == "known" and f.get("property") == prop and any(e in what for e in f.get("entry_points", [])):
            return f"{f.get('what', 'known finding')} [{f.get('id', '?')}]"
    return None


# ------------------------------------------------------------------------------------------ C19

PFX = {10: "", 16: "0x", 8: "0o", 2: "0b"}
DIG = "0123456789abcdef"


def digits(v, base):
    if v == 0:
        return "0"
    s = ""
    while v:
        s = DIG[v % base] + s
        v //= base
    return s


def underscore_variants(ds):
    out = {ds, "0" + ds, "00" + ds, ds + "_", ds + "__", ds.upper()}
    # zero padding wider than any type, with separators inside the run of zeros
    out.update({"0_0" + ds, "0_" + ds, "0000_00" + ds, "00_000_" + ds + "_"})
    if len(ds) > 1:
        out.add(ds[0] + "_" + ds[1:])
        out.add(ds[:-1] + "__" + ds[-1])
        mid = len(ds) // 2
        out.add(ds[:mid] + "_" + ds[mid:])
        out.add("_".join(ds[i:i + 3] for i in range(0, len(ds), 3)))
    return out


def c19_space(tier):
    widths = [0, 1, 2, 7, 8, 63, 64, 65, 127, 128, 129, 255, 256, 257, 1024, 4096]
    if tier == "thorough":
        widths += [3, 9, 16, 31, 32, 33, 66, 90, 191, 192, 193, 512, 2048]
    pos, neg = [], []
    for w in widths:
        top = (1 << w) - 1
        for base in (10, 16, 8, 2):
            vals = {0, 1, top, max(top - 1, 0), (1 << w) >> 1, min(((1 << w) >> 1) + 1, top), 0x7f & top, int("9" * min(400, max(1, w // 4))) & top}
            # digit-run patterns and limb-straddling digits (octal digits straddle the 64-bit limb boundary)
            for k in (21, 22, 42, 43, 64, 65, 85, 128):
                if k < w:
                    vals.add(1 << k)
                    vals.add(((1 << k) * 7) & top)
                    vals.add(((1 << (k + 1)) - 1) & top)
            vals.add(int("7" * 50, 8) & top)
            vals.add(int("a5" * 40, 16) & top)
            # digit strings that begin like another base's prefix once a leading zero is written (0x0b.., 0x0B..)
            vals.update(x & top for x in (0xb, 0xb0, 0xb1, 0xb11, 0xb7, 0xbf, 0xb1010))
            if w >= 1024:
                vals.add(int("1234567890" * 30) & top)
            for v in sorted(vals):
                if v > top:
                    continue
                vs = underscore_variants(digits(v, base))
                if base != 10:
                    vs.add("_" + digits(v, base))  # 0x_ff: the separator directly after the base prefix (a valid Rust literal)
                if tier != "thorough" and w > 300:
                    vs = sorted(vs)[:4]
                for ds in vs:
                    for t in "UB":
                        if t == "B" and base == 16 and not ds.endswith("_"):
                            continue  # passes through by design (see pass-through cases)
                        pos.append((f"{PFX[base]}{ds}{t}{w}", w, v, t))
            for v in {(1 << w), (1 << w) + 1, (1 << (w + 64)), (1 << w) * 16, ((1 << w) | 1) << 3}:
                for ds in (digits(v, base), digits(v, base) + "_", "0" + digits(v, base)):
                    neg.append((f"{PFX[base]}{ds}U{w}", "value too large"))
                    if base != 16:
                        neg.append((f"{PFX[base]}{ds}B{w}", "value too large"))
                    else:
                        # hexadecimal Bits literals need the separating underscore (without it the B is a digit)
                        neg.append((f"0x{ds.rstrip('_')}_B{w}", "value too large"))
    for w in (8, 64, 256):
        for lit in ["1a", "a", "1A_", "12f", "9a9", "1_a", "1.5", "1e3"]:
            neg.append((f"{lit}_U{w}", "digit not valid in base 10"))
            neg.append((f"{lit}U{w}", "digit not valid in base 10"))
        for lit in ["0o8", "0o18_", "0o9", "0b2", "0b12", "0b1a", "0x1g", "0xg_", "0o7a", "0b102", "0o78", "0o0b1", "0x0o7", "0b0x1", "0x0x1", "0b0b1", "0o0o7", "0b0o1", "0o0x7"]:
            neg.append((f"{lit}_U{w}", "digit not valid in its base"))
        # a separator (or a leading zero) between the `0` and the base letter, upper-case base letters: Rust lexes these
        # as the DECIMAL literal 0 / 00 with a suffix that starts with a letter, so they are not base-prefixed literals and
        # the letter is not a decimal digit
        for lit in ["0_x1F", "0_b1", "0_o17", "0__x_ff", "0_b101", "0_xff", "00x1F", "00b1", "00o7", "0_0x1", "0X1F", "0B1", "0O17", "0_X1F"]:
            for t in "UB":
                neg.append((f"{lit}_{t}{w}", "separator or zero between 0 and the base letter / upper-case base letter: not a prefixed literal"))
    pos = sorted(set(pos))
    neg = sorted(set(neg))
    return pos, neg


PASS_THROUGH = [
    # (tokens inside the macro, the same tokens outside) - must be equal in value AND type
    "5u8", "0xffu64", "1_000usize", "1.5f32", "0x1B8", "0x12B8", "0x1_2B8", "0xFF_FFB8", "0xBBBB_B432_B245_B323_u64", '"5U8"', "'U'", 'b"U8"', "1e3f64", "0b101u8", "0o17i32",
    "7", "0x10", "true", "(1u8, 2u16)", "[1u8, 2u8]", "{ 3u32 }", "((((4i64))))", "[[1u8; 2]; 2]", "{ [(5u8,)] }", "\"0x5_U8\"", "0xB8", "0x0B8", "1i128",
]
# string / char literals with multi-byte characters at every alignment relative to BOTH ends (a macro that slices the
# literal's text at a byte offset must not land inside a character)
for _c in ("\u00e9", "\u20ac", "\U0001F600"):
    for _j in range(4):
        for _k in (1, 2, 3, 5):
            for _i in range(9):
                PASS_THROUGH.append('"' + "a" * _j + _c * _k + "b" * _i + '"')
# lower-case hex literals that end in b<digits> / u<digits> after a separator are ordinary Rust (values kept below 2^31 so that the
# same tokens OUTSIDE the macro compile as i32)
PASS_THROUGH += ['0x0fff_b000', '0x12_b8', '0x00a0_b123', '0x_b8', '0x0ead_beef', '0x0000_b612_u64', '0xab_u8', '0x1_u64', '0b1010_1010', '0o7_u16', '0xb8', '0xB_u8', '0x0u8', '0xfff_u16', '0xffff_b000_u32', '0x7fff_b256']
PASS_THROUGH += ['"temp\u00e9rature"', '"\u03b1\u03b2\u03b3\u03b4\u03b5\u03b6\u03b7\u03b8"', '"\u6570\u5024\u30ea\u30c6\u30e9\u30eb"', "'\u00e9'", "'\u20ac'", 'r"\u00e9\u00e9\u00e9\u00e9U8"', 'r#"\u20ac\u20ac\u20ac"#', 'b"abcdefghU8"']
NESTED_LITS = [
    # (program fragment inside uint!, expected list of (bits, value))
    ("5_U8", [(8, 5)]), ("((((5_U8))))", [(8, 5)]), ("[1_U8, 2_U8][1]", [(8, 2)]), ("{ let x = 3_U65; x }", [(65, 3)]), ("{ [({ 7_U9 },)] }[0].0", [(9, 7)]),
    ("id(0xff_U8)", [(8, 255)]), ("id({ id((0b11_U2)) })", [(2, 3)]), ("if true { 1_U1 } else { 0_U1 }", [(1, 1)]),
    ("0xAB_B8.into_inner()", [(8, 0xAB)]), ("0x1_B8.into_inner()", [(8, 1)]),
    # deep nesting: 65, 100 and 200 groups around one literal, in parentheses, blocks and mixed with a call
    ("(" * 65 + "5_U8" + ")" * 65, [(8, 5)]), ("{" * 100 + " 7_U9 " + "}" * 100, [(9, 7)]), ("({" * 100 + " 3_U65 " + "})" * 100, [(65, 3)]),
    ("id(" * 70 + "0xff_U8" + ")" * 70, [(8, 255)]),
    # the tokens AROUND a literal keep their meaning: a unary minus / not binds looser than a method call on the literal,
    # and a literal may be the FIRST token of a block tail, an if branch or a match arm and be followed by an operator
    ("-2_U8.pow(2_U8)", [(8, 252)]), ("-1_U64.wrapping_add(1_U64)", [(64, 2 ** 64 - 2)]), ("- 3_U8", [(8, 253)]), ("-(-1_U8)", [(8, 1)]), ("!1_U8", [(8, 254)]),
    ("!0x0f_U8.rotate_left(4)", [(8, 0x0f)]), ("5_U8 - 3_U8", [(8, 2)]), ("5_U8 - -3_U8", [(8, 8)]), ("-1_U8 - -1_U8", [(8, 0)]), ("- - 1_U8", [(8, 1)]),
    ("{ fn f(x: Uint<8, 1>) -> Uint<8, 1> { 1_U8 + x } f(2_U8) }", [(8, 3)]), ("match 0 { 0 => 0x10_U8 - 1_U8, _ => 0_U8 }", [(8, 15)]),
    ("if true { 1_U8 + 1_U8 } else { 0_U8 * 2_U8 }", [(8, 2)]), ("{ 2_U8 * 3_U8 }", [(8, 6)]), ("(|| { 4_U8 + 1_U8 })()", [(8, 5)]), ("{ 7_U9 << 1 }", [(9, 14)]),
    ("{ let mut a = 1_U8; a += 2_U8; { a } }", [(8, 3)]), ("loop { break 9_U8 - 1_U8; }", [(8, 8)]), ("{ 3_U65 & 1_U65 }", [(65, 1)]),
    # a literal that goes through the macro TWICE (uint! inside uint!, or a helper macro that forwards to ruint::uint! used
    # inside a uint! block): the first expansion's own output (limb constants) is walked again by the outer invocation -
    # values whose limbs read like a suffixed literal when printed in hexadecimal (..B123, ..U64)
    ("uint!(0xB123_U64)", [(64, 0xB123)]), ("uint!(45352_U16)", [(16, 45352)]), ("uint!(uint!(0xB456_U16))", [(16, 0xB456)]),
    ("uint!(0b1011_0100_0101_0110_B16).into_inner()", [(16, 0xB456)]), ("uint!(0x000000000000b100_U64)", [(64, 0xB100)]),
    ("uint!(0xB8_U8)", [(8, 0xB8)]), ("uint!(0x0B16_U16)", [(16, 0x0B16)]), ("uint!(0xB256_0000_0000_0000_B128_0000_0000_0000_B064_U192)", [(192, 0xB256_0000_0000_0000_B128_0000_0000_0000_B064)]),
    ("{ macro_rules! fw { ($x:expr) => { ruint::uint!($x) } } fw!(45352_U16) }", [(16, 45352)]), ("{ macro_rules! fw { ($($t:tt)*) => { ruint::uint!{ $($t)* } } } fw!(0xB123_U64 + 1_U64) }", [(64, 0xB124)]),
    ("uint!(0xB123_U64) + uint!(0xA000_B064_U64)", [(64, 0xB123 + 0xA000_B064)]),
    # doc comments are literals too (#[doc = "..."]): multi-byte text at several alignments
    ("{ /** Puffergr\u00f6\u00dfe in W\u00f6rtern. */ let x = 5_U8; x }", [(8, 5)]), ("{ /** \u00e9 */ let x = 6_U8; x }", [(8, 6)]), ("{ /** a\u20ac\u20ac\u20ac\u20acbcdefg */ let x = 7_U8; x }", [(8, 7)]),
    ("{ /** \u6570\u5024\u30ea\u30c6\u30e9\u30eb */ let x = 8_U8; x }", [(8, 8)]), ("{ /** \U0001F600\U0001F600\U0001F600 1U8 */ let x = 9_U8; x }", [(8, 9)]),
]


def c19_accept_program(chunk):
    lines = [
        "#![allow(unused)]",
        "use ruint::{uint, Uint, Bits};",
        "fn cu<const B: usize, const L: usize>(id: usize, x: Uint<B, L>, w: usize, digits: &str, radix: u64) { assert_eq!(B, w); let rt = Uint::<B, L>::from_str_radix(digits, radix).expect(\"runtime parse\"); println!(\"{} {:?} {}\", id, x.as_limbs(), rt == x); }",
        "fn cb<const B: usize, const L: usize>(id: usize, x: Bits<B, L>, w: usize, digits: &str, radix: u64) { assert_eq!(B, w); let rt = Uint::<B, L>::from_str_radix(digits, radix).expect(\"runtime parse\"); println!(\"{} {:?} {}\", id, x.as_limbs(), rt == x.into_inner()); }",
        "fn main() { uint! {",
    ]
    for j, (lit, w, v, t) in chunk:
        body = lit[:lit.rfind(t)]
        radix = 10
        for r, p in PFX.items():
            if p and body.startswith(p):
                radix, body = r, body[len(p):]
                break  # one prefix only: the digits of 0x0b1 begin with "0b"
        body = body.strip("_") or "0"
        lines.append(f"  c{'u' if t == 'U' else 'b'}({j}, {lit}, {w}, \"{body}\", {radix});")
    lines.append("}}")
    return "\n".join(lines)


def c19_check_chunk(args):
    d, i, chunk = args
    src = os.path.join(d, f"pos{i}.rs")
    open(src, "w").write(c19_accept_program(chunk))
    rc, err = rustc(src, src[:-3])
    if rc != 0:
        if len(chunk) == 1:
            j, (lit, w, v, t) = chunk[0]
            return [(lit, "rejected at compile time", f"value {v} of width {w}", err.strip().splitlines()[0][:300] if err.strip() else "")]
        # bisect: a failing literal in a batch hides its neighbours
        mid = len(chunk) // 2
        return c19_check_chunk((d, f"{i}a", chunk[:mid])) + c19_check_chunk((d, f"{i}b", chunk[mid:]))
    rc, out, err = run_bin(src[:-3])
    got = {}
    for l in out.splitlines():
        p = l.split(" ", 1)
        try:
            limbs, same = p[1].rsplit(" ", 1)
            got[int(p[0])] = (json.loads(limbs), same == "true")
        except (ValueError, IndexError):
            pass
    res = []
    for j, (lit, w, v, t) in chunk:
        nl = (w + 63) // 64
        exp = [(v >> (64 * k)) & (2 ** 64 - 1) for k in range(nl)]
        g = got.get(j)
        if g is None:
            res.append((lit, f"no output (exit {rc}: {err.strip()[-200:]})", f"limbs {exp}", ""))
        elif g[0] != exp or not g[1]:
            res.append((lit, f"limbs {g[0]}, equals runtime parse: {g[1]}", f"limbs {exp} and equal to the runtime parse", ""))
    for f in (src, src[:-3]):
        if os.path.exists(f):
            os.remove(f)
    return res


def c19_check_reject(args):
    d, i, (lit, why) = args
    src = os.path.join(d, f"neg{i}.rs")
    # type-agnostic on purpose: a literal that the macro wrongly passes through as a plain integer must still compile here
    open(src, "w").write(f"#![allow(overflowing_literals)] use ruint::uint; fn show<T: std::fmt::Debug>(x: T) {{ println!(\"{{}} = {{:?}}\", std::any::type_name::<T>(), x); }} fn main() {{ show(uint!({lit})); }}")
    rc, err = rustc(src, src[:-3])
    res = None
    if rc == 0:
        _, out, _ = run_bin(src[:-3])
        res = (lit, f"compiled and yielded {out.strip()}", f"compile-time error ({why})", "")
    for f in (src, src[:-3]):
        if os.path.exists(f):
            os.remove(f)
    return res


FORWARDED = [
    # literals that reach uint! through macro_rules fragments (rustc wraps $e:expr / $l:literal in invisible groups)
    ("fwd_expr!(5_U8)", (8, 5)), ("fwd_expr!((3_U65))", (65, 3)), ("fwd_lit!(0xff_U8)", (8, 255)), ("fwd_tt!(7_U9)", (9, 7)),
    ("fwd_expr!(fwd_expr!(0b11_U2))", (2, 3)), ("fwd_expr!(id(0o17_U4))", (4, 15)), ("fwd_two!(1_U1, 1_U1)", (1, 0)), ("fwd_lit!(0xAB_B8).into_inner()", (8, 0xAB)),
]


# literals that differ only in underscore placement, suffix letter or prefix, some typed and some passing through:
# every ORDERED PAIR of them is expanded inside ONE invocation and compared with the two single-literal
# invocations (state carried from one literal to the next inside an invocation must not exist)
HIST = ["0x1_B8", "0x1B8", "0x12_B8", "0x12B8", "0x1_2B8", "0xAB_B8", "0xABB8", "0x1_U8", "0x1U8", "1_U8", "1U8", "0x1_U16", "1_U16", "0b1_U8",
        "0o1_U8", "0x0B8", "0xB8", "0x0_B8", "1u8", "1", "0x1_B16", "0x1B16", "0x1_B8_U16", "0x1B8_U16"]


def c19_hist_program():
    lines = ["#![allow(unused)]", "use ruint::{uint, Uint, Bits};", "fn ty<T>(_: &T) -> &'static str { std::any::type_name::<T>() }", "fn main() {"]
    for i, a in enumerate(HIST):
        lines.append(f"  {{ let s = uint! {{ {a} }}; println!(\"S{i} {{}} {{:?}}\", ty(&s), s); }}")
    for i, a in enumerate(HIST):
        for j, b in enumerate(HIST):
            lines.append(f"  {{ let p = uint! {{ ({a}, [{b}]) }}; println!(\"H{i}_{j} {{}} {{:?}} | {{}} {{:?}}\", ty(&p.0), p.0, ty(&p.1[0]), p.1[0]); }}")
    lines.append("}")
    return "\n".join(lines)


def c19_hist(d):
    src = os.path.join(d, "hist.rs")
    open(src, "w").write(c19_hist_program())
    rc, err = rustc(src, src[:-3])
    if rc != 0:
        return [("history", "pairs of literals inside one invocation", "rejected at compile time", "compiles", err.strip()[:600])]
    _, out, _ = run_bin(src[:-3])
    seen = {l.split(" ", 1)[0]: l.split(" ", 1)[1] for l in out.splitlines() if " " in l}
    viol = []
    for i, a in enumerate(HIST):
        for j, b in enumerate(HIST):
            e = f"{seen.get(f'S{i}')} | {seen.get(f'S{j}')}"
            g = seen.get(f"H{i}_{j}")
            if g != e or f"S{i}" not in seen:
                viol.append(("history", f"({a}, [{b}])", str(g), e + " (each literal as when expanded alone)", ""))
    return viol


def c19_misc_program(only=None):
    """all pass-through / nesting / forwarding cases in one program, or (only=(tag, k)) a single case"""
    def want(tag, k):
        return only is None or only == (tag, k) or (only == ("P", k) and tag == "Q")
    lines = ["#![allow(unused)]", "#![recursion_limit = \"1024\"]", "use ruint::{uint, Uint, Bits};",
             "fn ty<T>(_: &T) -> &'static str { std::any::type_name::<T>() }",
             "fn id<T>(x: T) -> T { x }",
             "fn show<const B: usize, const L: usize>(x: Uint<B, L>) -> String { format!(\"{} {:?}\", B, x.as_limbs()) }",
             "macro_rules! fwd_expr { ($e:expr) => { uint! { $e } }; }",
             "macro_rules! fwd_lit { ($l:literal) => { uint! { $l } }; }",
             "macro_rules! fwd_tt { ($($t:tt)*) => { uint! { $($t)* } }; }",
             "macro_rules! fwd_two { ($a:expr, $b:expr) => { uint! { $a ^ $b } }; }",
             "fn main() {"]
    for k, (frag, _) in enumerate(FORWARDED):
        if want("F", k):
            lines.append(f"  {{ let a = {frag}; println!(\"F{k} {{}}\", show(a)); }}")
    for k, tok in enumerate(PASS_THROUGH):
        if not want("P", k):
            continue
        lines.append(f"  {{ let a = uint! {{ {tok} }}; let b = {tok}; println!(\"P{k} {{}} {{}}\", format!(\"{{:?}}\", a) == format!(\"{{:?}}\", b), ty(&a) == ty(&b)); }}")
        lines.append(f"  {{ let a = uint! {{ ((({{ [{tok}] }}))) }}; let b = ((({{ [{tok}] }}))); println!(\"Q{k} {{}} {{}}\", format!(\"{{:?}}\", a) == format!(\"{{:?}}\", b), ty(&a) == ty(&b)); }}")
    for k, (frag, _) in enumerate(NESTED_LITS):
        if want("N", k):
            lines.append(f"  {{ let a = uint! {{ {frag} }}; println!(\"N{k} {{}}\", show(a)); }}")
    lines.append("}")
    return "\n".join(lines)


def c19(tier, seed):
    t0 = time.time()
    d = fresh_workdir("c19")
    pos, neg = c19_space(tier)
    ch = 400
    chunks = [(d, i, list(enumerate(pos))[k:k + ch]) for i, k in enumerate(range(0, len(pos), ch))]
    viol = []
    with cf.ThreadPoolExecutor(os.cpu_count() or 8) as ex:
        for r in ex.map(c19_check_chunk, chunks):
            viol += [("accepting", *x) for x in r]
        for r in ex.map(c19_check_reject, [(d, i, n) for i, n in enumerate(neg)]):
            if r:
                viol.append(("rejecting", *r))
    # pass-through and nesting
    src = os.path.join(d, "misc.rs")
    open(src, "w").write(c19_misc_program())
    rc, err = rustc(src, src[:-3])
    nmisc = 2 * len(PASS_THROUGH) + len(NESTED_LITS) + len(FORWARDED)
    if rc != 0:
        # the combined program does not compile: compile every case on its own to attribute the rejection
        def one(case):
            kind, text, body = case
            one_src = os.path.join(d, "one_" + hashlib.sha1(text.encode()).hexdigest()[:10] + ".rs")
            open(one_src, "w").write(c19_misc_program(only=body))
            r1, e1 = rustc(one_src, one_src[:-3])
            return None if r1 == 0 else (kind, text, "rejected at compile time", "compiles (and keeps value and type)", (e1.strip().splitlines() or [""])[0][:300])
        cases = [("nesting", f + " (forwarded through a macro_rules fragment)", ("F", k)) for k, (f, _) in enumerate(FORWARDED)]
        cases += [("pass-through", t, ("P", k)) for k, t in enumerate(PASS_THROUGH)] + [("nesting", f, ("N", k)) for k, (f, _) in enumerate(NESTED_LITS)]
        with cf.ThreadPoolExecutor(os.cpu_count() or 8) as ex:
            bad = [x for x in ex.map(one, cases) if x]
        viol += bad if bad else [("pass-through", "pass-through / nesting program", "rejected at compile time", "compiles", err.strip()[:600])]
    else:
        _, out, _ = run_bin(src[:-3])
        seen = {l.split(" ", 1)[0]: l.split(" ", 1)[1] for l in out.splitlines() if " " in l}
        for k, tok in enumerate(PASS_THROUGH):
            for tag in ("P", "Q"):
                if seen.get(f"{tag}{k}") != "true true":
                    viol.append(("pass-through", tok + (" (nested 4 groups deep)" if tag == "Q" else ""), f"(value equal, type equal) = {seen.get(f'{tag}{k}')}", "identical to the same tokens outside the macro", ""))
        for k, (frag, (w, v)) in enumerate(FORWARDED):
            e = f"{w} {[(v >> (64 * i)) & (2 ** 64 - 1) for i in range((w + 63) // 64)]}"
            if seen.get(f"F{k}") != e:
                viol.append(("nesting", frag + " (forwarded through a macro_rules fragment)", str(seen.get(f"F{k}")), e, ""))
        for k, (frag, exp) in enumerate(NESTED_LITS):
            (w, v) = exp[0]
            e = f"{w} {[(v >> (64 * i)) & (2 ** 64 - 1) for i in range((w + 63) // 64)]}"
            if seen.get(f"N{k}") != e:
                viol.append(("nesting", frag, str(seen.get(f"N{k}")), e, ""))
    viol += c19_hist(d)
    nmisc += len(HIST) * len(HIST)
    shutil.rmtree(d, ignore_errors=True)
    total = len(pos) + len(neg) + nmisc
    real = 0
    for v in viol[:]:
        kn = known("C19", v[1])
        if kn:
            print(f"KNOWN-FINDING: property=C19 {kn}")
            continue
        real += 1
        if real <= 5:
            path = write_replay("C19", v[1], {"kind": v[0], "literal_or_tokens": v[1], "observed": v[2], "expected": v[3], "detail": v[4],
                                             "program": f"use ruint::uint; fn main() {{ let x = uint!{{ {v[1]} }}; }}"})
            print(f"VIOLATION property=C19 replay={path}")
            print(f"  [{v[0]}] {v[1][:200]}: observed {v[2][:300]}; expected {v[3][:300]}")
    ev = {
        "property_id": "C19", "tier": tier, "seed": int(seed), "level": "model_checking",
        "coverage": {
            "states": total, "transitions": total, "traces_validated_against_impl": total,
            "evaluations": total, "distinct_nontrivial": len(neg) + sum(1 for p in pos if p[2] > 1) + nmisc,
            "programs": len(chunks) + len(neg) + 1,
            "rule": "program space: literal = base prefix {'',0x,0o,0b} x digit string (values 0, 1, 2^w-2, 2^w-1, 2^(w-1), digit-run and limb-straddling patterns, long decimals) x underscore placement (leading zeros, after first digit, doubled, before suffix, every 3 digits, upper case) x suffix {U,B} x 16 widths 0..4096 (29 thorough); every accepting literal is compiled through the real macro and its limbs compared with the Python value AND with from_str_radix of the same digits at run time, the type being pinned by a function generic over <BITS, LIMBS>; every rejecting literal (value >= 2^w, digit invalid in its base) is its own program and must fail to compile; pass-through tokens are compared (value and type) with the same tokens outside the macro, alone and nested 4 groups deep; every ordered pair of 24 confusable literals inside ONE invocation is compared with the two single-literal invocations; non-trivial = value > 1, or a rejecting / pass-through case",
            "samples": [{"literal": p[0], "width": p[1], "value": str(p[2])} for p in (pos[:2] + pos[len(pos) // 2:len(pos) // 2 + 2] + pos[-2:])] + [{"rejecting": n[0], "why": n[1]} for n in neg[:3]] + [{"pass_through": t} for t in PASS_THROUGH[:4]],
            "exhaustive": True,
            "accepting_literals": len(pos), "rejecting_literals": len(neg), "pass_through_and_nesting_cases": nmisc,
            "explanation": "every program of the bounded space went through the real rustc + ruint-macro built from /repo's working tree; batches that fail to compile are bisected down to single literals before any verdict",
        },
        "assumptions": ["rustc 1.95 and Python int arithmetic are trusted", "widths and digit patterns from the stated grids; arbitrary token trees beyond the listed nesting shapes are not explored"],
        "wall_s": round(time.time() - t0, 3), "violations": real,
    }
    os.makedirs(os.path.join(ROOT, "evidence"), exist_ok=True)
    json.dump(ev, open(os.path.join(ROOT, "evidence", "C19.json"), "w"), indent=1)
    print(f"C19 tier={tier} accepting={len(pos)} rejecting={len(neg)} misc={nmisc} violations={real} wall={time.time() - t0:.1f}s")
    return 1 if real else 0


# ------------------------------------------------------------------------------------------ C04 part 4

ILL_PAIRS = [(0, 1), (1, 0), (1, 2), (63, 2), (64, 0), (64, 2), (65, 1), (65, 3), (128, 1), (128, 3)]


def constructors():
    path = os.path.join(ROOT, "probe", "constructors.txt")
    out = []
    for line in open(path):
        line = line.rstrip("\n")
        if not line.strip() or line.startswith("#"):
            continue
        name, expr = line.split("\t", 1)
        out.append((name.strip(), expr.strip()))
    return out


def ill_check(args):
    d, (b, l), (name, expr) = args
    tag = f"p_{b}_{l}_{hashlib.sha1(name.encode()).hexdigest()[:8]}"
    src = os.path.join(d, tag + ".rs")
    open(src, "w").write(
        "#![allow(unused)]\nuse ruint::{Uint, Bits};\n"
        f"const B: usize = {b}; const L: usize = {l}; type T = Uint<B, L>; type TB = Bits<B, L>;\n"
        f"fn main() {{ let v = {expr}; println!(\"{{:?}}\", std::hint::black_box(&v).as_limbs()); }}\n")
    rc, err = rustc(src, src[:-3])
    if rc != 0:
        first = next((x for x in err.splitlines() if x.startswith("error")), "error")
        cls = "rejected at compile time (E0080)" if "E0080" in err else "rejected at compile time (" + first[:120] + ")"
        res = (b, l, name, expr, "reject", cls)
    else:
        rc2, out, err2 = run_bin(src[:-3])
        if rc2 != 0:
            res = (b, l, name, expr, "panic", "compiles and panics at run time")
        else:
            res = (b, l, name, expr, "VALUE", "compiles and yields " + out.strip()[:200])
    for f in (src, src[:-3]):
        if os.path.exists(f):
            os.remove(f)
    return res


def c04_part4(tier, seed):
    t0 = time.time()
    d = fresh_workdir("c04")
    cons = constructors()
    jobs = [(d, p, c) for p in ILL_PAIRS for c in cons]
    with cf.ThreadPoolExecutor(os.cpu_count() or 8) as ex:
        results = list(ex.map(ill_check, jobs))
    # sanity: the same constructors must be obtainable for a well-formed pair (otherwise the probe proves nothing)
    good = [(d, (64, 1), c) for c in cons] + [(d, (65, 2), c) for c in cons]
    with cf.ThreadPoolExecutor(os.cpu_count() or 8) as ex:
        good_results = list(ex.map(ill_check, good))
    shutil.rmtree(d, ignore_errors=True)
    vac = [r for r in good_results if r[4] == "reject" and "E0080" not in r[5]]
    both = {}
    for r in good_results:
        both.setdefault(r[2], []).append(r[4])
    broken_probe = [n for n, v in both.items() if all(x == "reject" for x in v)]
    if broken_probe:
        print(f"MACHINERY-ERROR: constructor expressions do not compile even for well-formed types: {broken_probe[:5]} (not a verdict)")
        return 2, None
    viol = [r for r in results if r[4] == "VALUE"]
    real = 0
    for r in viol:
        what = f"Uint<{r[0]},{r[1]}> {r[2]}"
        kn = known("C04", r[2])
        if kn:
            print(f"KNOWN-FINDING: property=C04 {kn}")
            continue
        real += 1
        if real <= 5:
            path = write_replay("C04", what, {"kind": "ill-formed type obtainable", "bits": r[0], "limbs": r[1], "constructor": r[2], "expr": r[3], "observed": r[5],
                                             "expected": "compile-time rejection or run-time panic",
                                             "program": f"use ruint::{{Uint, Bits}}; const B: usize = {r[0]}; const L: usize = {r[1]}; type T = Uint<B, L>; type TB = Bits<B, L>; fn main() {{ let v = {r[3]}; println!(\"{{:?}}\", v.as_limbs()); }}"})
            print(f"VIOLATION property=C04 replay={path}")
            print(f"  [ill-formed type] Uint<{r[0]}, {r[1]}>: `{r[3]}` {r[5]}; expected a compile-time rejection or a panic")
    summary = {
        "ill_formed_pairs": ILL_PAIRS, "constructors": len(cons), "programs": len(jobs) + len(good),
        "rejected_at_compile_time": sum(1 for r in results if r[4] == "reject"), "panics_at_run_time": sum(1 for r in results if r[4] == "panic"),
        "values_obtained": len(viol), "control_programs_on_well_formed_types": len(good),
        "control_values_obtained": sum(1 for r in good_results if r[4] in ("VALUE", "panic")),
        "wall_s": round(time.time() - t0, 3),
        "samples": [{"pair": [r[0], r[1]], "constructor": r[2], "outcome": r[5]} for r in results[:3] + results[-2:]],
    }
    print(f"C04/part4 tier={tier} pairs={len(ILL_PAIRS)} constructors={len(cons)} programs={len(jobs) + len(good)} values_obtained={len(viol)} violations={real} wall={time.time() - t0:.1f}s")
    return (1 if real else 0), (summary, real)


# Well-formed types, but const-generic ARGUMENTS of a function that contradict each other (a result type too narrow for a
# widening product, a byte-array length that is not BYTES). The library rejects these at compile time or panics; whatever
# a changed library lets through must still be a canonical value. Compiled against BOTH library builds (with and without
# debug assertions), because a run-time check written as `debug_assert!` only exists in one of them.
MISSIZED = [
    ("widening_mul 64x64->65", "Uint::<64, 1>::MAX.widening_mul::<64, 1, 65, 2>(Uint::<64, 1>::MAX)"),
    ("widening_mul 64x64->127", "Uint::<64, 1>::MAX.widening_mul::<64, 1, 127, 2>(Uint::<64, 1>::MAX)"),
    ("widening_mul 60x60->100", "Uint::<60, 1>::MAX.widening_mul::<60, 1, 100, 2>(Uint::<60, 1>::MAX)"),
    ("widening_mul 32x32->40", "Uint::<32, 1>::MAX.widening_mul::<32, 1, 40, 1>(Uint::<32, 1>::MAX)"),
    ("widening_mul 256x256->449", "Uint::<256, 4>::MAX.widening_mul::<256, 4, 449, 8>(Uint::<256, 4>::MAX)"),
    ("widening_mul 65x64->128", "Uint::<65, 2>::MAX.widening_mul::<64, 1, 128, 2>(Uint::<64, 1>::MAX)"),
    ("widening_mul 1x1->1", "Uint::<1, 1>::MAX.widening_mul::<1, 1, 1, 1>(Uint::<1, 1>::MAX)"),
    ("from_be_bytes 8 bits from 2 bytes", "Uint::<8, 1>::from_be_bytes::<2>([1, 2])"),
    ("from_le_bytes 8 bits from 2 bytes", "Uint::<8, 1>::from_le_bytes::<2>([1, 2])"),
    ("from_be_bytes 12 bits from 1 byte", "Uint::<12, 1>::from_be_bytes::<1>([0xff])"),
    ("from_le_bytes 65 bits from 8 bytes", "Uint::<65, 2>::from_le_bytes::<8>([0xff; 8])"),
    ("from_be_bytes 65 bits from 16 bytes", "Uint::<65, 2>::from_be_bytes::<16>([0xff; 16])"),
    ("from_be_bytes 12 bits, excess bits", "Uint::<12, 1>::from_be_bytes::<2>([0xff, 0xff])"),
    ("from_le_bytes 63 bits, excess bit", "Uint::<63, 1>::from_le_bytes::<8>([0xff; 8])"),
]
# bytemuck: `Pod` (any bit pattern is a value) is only sound for widths that fill their limbs; for every other width
# the impl must not exist (compile error) - a cast that compiles must still give a canonical value
for _b, _l in [(1, 1), (8, 1), (63, 1), (65, 2), (127, 2), (160, 3), (250, 4), (255, 4), (2047, 32), (4095, 64)]:
    MISSIZED.append((f"bytemuck pod_read_unaligned Uint<{_b},{_l}>", f"bytemuck::pod_read_unaligned::<Uint<{_b}, {_l}>>(&[0xffu8; {8 * _l}])"))
    MISSIZED.append((f"bytemuck cast [u64; {_l}] -> Uint<{_b},{_l}>", f"bytemuck::cast::<[u64; {_l}], Uint<{_b}, {_l}>>([u64::MAX; {_l}])"))
MISSIZED_CONTROL = [("bytemuck pod_read_unaligned Uint<128,2>", "bytemuck::pod_read_unaligned::<Uint<128, 2>>(&[0xffu8; 16])"), ("widening_mul 64x64->128", "Uint::<64, 1>::MAX.widening_mul::<64, 1, 128, 2>(Uint::<64, 1>::MAX)"), ("from_be_bytes 12 bits", "Uint::<12, 1>::from_be_bytes::<2>([0x0f, 0xff])")]


def missized_check(args):
    d, k, name, expr, profile = args
    src = os.path.join(d, f"ms_{profile}_{k}.rs")
    open(src, "w").write(
        "use ruint::Uint;\nfn chk<const B: usize, const L: usize>(v: Uint<B, L>) { let ok = L == ruint::nlimbs(B) && (L == 0 || v.as_limbs()[L - 1] <= Uint::<B, L>::MASK); "
        "println!(\"{} {:?}\", if ok { \"CANON\" } else { \"NONCANON\" }, v.as_limbs()); }\n"
        f"fn main() {{ let v = std::hint::black_box({expr}); chk(v); }}\n")
    rc, err = rustc(src, src[:-3], profile)
    if rc != 0:
        return (name, expr, profile, "reject", (err.strip().splitlines() or [""])[0][:160])
    rc2, out, _ = run_bin(src[:-3])
    if rc2 != 0:
        return (name, expr, profile, "panic", "")
    return (name, expr, profile, "NONCANON" if out.startswith("NONCANON") else "value", out.strip()[:200])


def c04_part5(tier, seed):
    t0 = time.time()
    d = fresh_workdir("c04ms")
    try:
        artifacts("noassert")
    except RuntimeError:
        print("MACHINERY-ERROR: build of the no-assertion library failed (not a verdict)")
        return 2, None
    jobs = [(d, k, n, e, prof) for prof in ("release", "noassert") for k, (n, e) in enumerate(MISSIZED + MISSIZED_CONTROL)]
    with cf.ThreadPoolExecutor(os.cpu_count() or 8) as ex:
        res = list(ex.map(missized_check, jobs))
    shutil.rmtree(d, ignore_errors=True)
    ctrl = [r for r in res if (r[0], r[1]) in MISSIZED_CONTROL]
    if any(r[3] != "value" for r in ctrl):
        print(f"MACHINERY-ERROR: control programs of the mis-sized probe do not yield canonical values: {[r for r in ctrl if r[3] != 'value'][:2]} (not a verdict)")
        return 2, None
    real = 0
    for r in res:
        if r[3] != "NONCANON":
            continue
        real += 1
        if real <= 5:
            path = write_replay("C04", f"missized {r[0]} {r[2]}", {"kind": "non-canonical value from contradictory const-generic arguments", "expr": r[1], "profile": r[2], "observed": r[4],
                                                                   "expected": "compile-time rejection, a panic, or a canonical value",
                                                                   "program": f"use ruint::Uint; fn main() {{ let v = {r[1]}; println!(\"{{:?}}\", v.as_limbs()); }}"})
            print(f"VIOLATION property=C04 replay={path}")
            print(f"  [contradictory const-generic arguments, library built {'without' if r[2] == 'noassert' else 'with'} debug assertions] `{r[1]}` yields the non-canonical value {r[4]}")
    summary = {"expressions": len(MISSIZED), "profiles": 2, "programs": len(jobs), "rejected_at_compile_time": sum(1 for r in res if r[3] == "reject"), "panics": sum(1 for r in res if r[3] == "panic"),
               "canonical_values": sum(1 for r in res if r[3] == "value"), "non_canonical_values": real, "wall_s": round(time.time() - t0, 3)}
    print(f"C04/part5 tier={tier} expressions={len(MISSIZED)} x 2 library builds: rejected={summary['rejected_at_compile_time']} panics={summary['panics']} canonical={summary['canonical_values']} violations={real} wall={time.time() - t0:.1f}s")
    return (1 if real else 0), (summary, real)


# ------------------------------------------------------------------------------------------ layout probe (C07)
# Conversions of a value stored at an address that is 8 modulo 16 (behind a u64 in a 16-aligned record) against the same
# value at a 16-aligned address, each family in its own PROCESS: an implementation that reads limbs through a wider,
# more strictly aligned type does not return a wrong value - it kills the process (misaligned dereference / SIGSEGV),
# which inside the in-process engine would be a machinery failure instead of a verdict.
LAYOUT_TYPES = [(64, 1), (65, 2), (128, 2), (129, 3), (192, 3), (256, 4), (320, 5)]


def layout_program(b, l):
    vals = ["T::from(5u8)", "T::MAX", "T::MAX >> 1", "T::ONE << (B.min(64) - 1)", "T::MAX >> (B / 2)"]
    convs = [
        ("u128::try_from", "format!(\"{:?}\", u128::try_from(x).ok())"), ("i128::try_from", "format!(\"{:?}\", i128::try_from(x).ok())"),
        ("u64::try_from", "format!(\"{:?}\", u64::try_from(x).ok())"), ("i64::try_from", "format!(\"{:?}\", i64::try_from(x).ok())"),
        ("wrapping_to u128", "format!(\"{:?}\", x.wrapping_to::<u128>())"), ("wrapping_to i128", "format!(\"{:?}\", x.wrapping_to::<i128>())"),
        ("saturating_to u128", "format!(\"{:?}\", x.saturating_to::<u128>())"), ("saturating_to i128", "format!(\"{:?}\", x.saturating_to::<i128>())"),
        ("wrapping_to u32", "format!(\"{:?}\", x.wrapping_to::<u32>())"), ("f64::from", "format!(\"{:?}\", f64::from(x))"), ("f32::from", "format!(\"{:?}\", f32::from(x))"),
        ("Uint -> Uint<256>", "format!(\"{:?}\", x.wrapping_to::<Uint<256, 4>>().as_limbs())"), ("bool::try_from", "format!(\"{:?}\", bool::try_from(x).ok())"),
    ]
    lines = ["use ruint::Uint;", f"const B: usize = {b};", f"type T = Uint<{b}, {l}>;", "#[repr(C, align(16))] struct Off<V>(u64, V);", "#[repr(C, align(16))] struct Al<V>(V);", "fn main() {",
             f"  let vals: [T; {len(vals)}] = [{', '.join(vals)}];", "  for (k, v) in vals.iter().enumerate() {",
             "    let w = std::hint::black_box(Off(0x5a5a_u64, *v)); let a = std::hint::black_box(Al(*v));",
             "    assert_eq!((&w.1 as *const T as usize) % 16, 8); assert_eq!((&a.0 as *const T as usize) % 16, 0);"]
    for name, e in convs:
        lines.append(f"    {{ let x = &w.1; let p = {e}; let x = &a.0; let q = {e}; println!(\"{{}} {name}: {{}}\", k, if p == q {{ \"OK\".to_string() }} else {{ format!(\"MISMATCH {{}} vs {{}}\", p, q) }}); }}")
    lines += ["  }", "}"]
    return "\n".join(lines)


def layout_check(args):
    d, b, l, profile = args
    src = os.path.join(d, f"layout_{profile}_{b}.rs")
    prog = layout_program(b, l)
    open(src, "w").write(prog)
    rc, err = rustc(src, src[:-3], profile)
    if rc != 0:
        return (b, l, profile, "MACHINERY", err.strip()[:300], prog)
    rc2, out, errout = run_bin(src[:-3])
    bad = [x for x in out.splitlines() if "MISMATCH" in x]
    if rc2 != 0:
        last = (out.strip().splitlines() or ["(nothing printed)"])[-1]
        return (b, l, profile, "CRASH", f"the process died (exit status {rc2}) after `{last}`: {errout.strip()[:200]}", prog)
    if bad:
        return (b, l, profile, "MISMATCH", bad[0][:200], prog)
    return (b, l, profile, "ok", f"{len(out.splitlines())} conversions", prog)


def c07_layout(tier, seed):
    """returns 0 / 1 / 2; merges a summary into evidence/C07.json"""
    t0 = time.time()
    d = fresh_workdir("c07layout")
    try:
        artifacts("release")
        artifacts("noassert")
    except RuntimeError:
        print("MACHINERY-ERROR: build failed (this is not a verdict about the property)")
        return 2
    jobs = [(d, b, l, prof) for prof in ("release", "noassert") for (b, l) in LAYOUT_TYPES]
    with cf.ThreadPoolExecutor(os.cpu_count() or 8) as ex:
        res = list(ex.map(layout_check, jobs))
    shutil.rmtree(d, ignore_errors=True)
    if any(r[3] == "MACHINERY" for r in res):
        print(f"MACHINERY-ERROR: the layout probe does not compile: {[r[4] for r in res if r[3] == 'MACHINERY'][:1]} (not a verdict)")
        return 2
    real = 0
    for r in res:
        if r[3] == "ok":
            continue
        real += 1
        if real <= 5:
            path = write_replay("C07", f"layout {r[0]} {r[2]}", {"kind": "conversion depends on the address of the value", "bits": r[0], "profile": r[2], "observed": r[4], "program": r[5],
                                                                  "expected": "every conversion of a value at an address that is 8 modulo 16 equals the conversion of the same value at a 16-aligned address; the process does not die"})
            print(f"VIOLATION property=C07 replay={path}")
            print(f"  [layout: Uint<{r[0]}, {r[1]}> at an address that is 8 modulo 16, library built {'without' if r[2] == 'noassert' else 'with'} debug assertions] {r[4]}")
    summary = {"types": LAYOUT_TYPES, "library_builds": 2, "processes": len(jobs), "conversions_per_process": 65, "violations": real, "wall_s": round(time.time() - t0, 3)}
    path = os.path.join(ROOT, "evidence", "C07.json")
    try:
        ev = json.load(open(path))
        ev["coverage"]["layout_probe"] = summary
        ev["coverage"]["states"] += len(jobs) * 5
        ev["coverage"]["transitions"] += len(jobs) * 65
        ev["coverage"]["traces_validated_against_impl"] += len(jobs) * 65
        ev["violations"] = int(ev.get("violations", 0)) + real
        json.dump(ev, open(path, "w"), indent=1)
    except Exception as ex:  # noqa
        print(f"MACHINERY-ERROR: cannot merge the layout probe into evidence/C07.json: {ex}")
        return 2
    print(f"C07/layout tier={tier} {len(LAYOUT_TYPES)} types x 2 library builds x 5 values x 13 conversions at both addresses modulo 16: violations={real} wall={time.time() - t0:.1f}s")
    return 1 if real else 0


def c04(tier, seed):
    rc, extra = c04_part4(tier, seed)
    if rc == 2:
        return 2
    summary, real = extra
    rc5, extra5 = c04_part5(tier, seed)
    if rc5 == 2:
        return 2
    rc = max(rc, rc5)
    # merge into the evidence written by mc_canon
    path = os.path.join(ROOT, "evidence", "C04.json")
    try:
        ev = json.load(open(path))
    except Exception:  # noqa
        print("MACHINERY-ERROR: evidence/C04.json from mc_canon is missing (not a verdict)")
        return 2
    c = ev["coverage"]
    n = summary["programs"]
    c["states"] += n
    c["transitions"] += n
    c["traces_validated_against_impl"] += n
    c["evaluations"] += n
    c["distinct_nontrivial"] += len(ILL_PAIRS) * summary["constructors"]
    c["programs"] = n
    c["part4_ill_formed_types"] = summary
    c["part5_contradictory_const_generic_arguments"] = extra5[0]
    c["states"] += extra5[0]["programs"]
    c["transitions"] += extra5[0]["programs"]
    c["traces_validated_against_impl"] += extra5[0]["programs"]
    real += extra5[1]
    c["samples"] = c.get("samples", [])[:40] + [{"part4": s} for s in summary["samples"]]
    ev["violations"] = int(ev.get("violations", 0)) + real
    ev["wall_s"] = round(float(ev.get("wall_s", 0)) + summary["wall_s"], 3)
    json.dump(ev, open(path, "w"), indent=1)
    return rc


def run(prop, tier, seed):
    try:
        artifacts()
    except RuntimeError:
        print("MACHINERY-ERROR: build failed (this is not a verdict about the property)")
        return 2
    if prop == "C19":
        return c19(tier, seed)
    if prop == "C04":
        return c04(tier, seed)
    print(f"probe: unknown property {prop}")
    return 2


def replay(path):
    j = json.load(open(path))
    d = fresh_workdir("replay")
    prof = j.get("profile") or "release"
    try:
        artifacts(prof)
    except RuntimeError:
        return 2
    obs = []
    for k in range(2):
        src = os.path.join(d, f"r{k}.rs")
        open(src, "w").write(j["program"])
        rc, err = rustc(src, src[:-3], prof)
        if rc != 0:
            obs.append("rejected at compile time")
        else:
            rc2, out, _ = run_bin(src[:-3])
            obs.append(("panics" if rc2 != 0 else "yields " + out.strip()))
    shutil.rmtree(d, ignore_errors=True)
    if obs[0] != obs[1]:
        print(f"REPLAY-NONDETERMINISTIC: {obs}")
        return 2
    print(f"replay program: {j['program'][:300]}")
    print(f"  expected: {j.get('expected')}")
    print(f"  observed now: {obs[0]}   (recorded: {j.get('observed')})")
    exp = j.get("expected", "")
    ok = ("compile" in exp and obs[0].startswith("rejected")) or ("panic" in exp and obs[0] == "panics")
    if j.get("kind", "").startswith("non-canonical value"):
        # the program prints the limbs; the recorded observation is the non-canonical value
        ok = obs[0].startswith("rejected") or obs[0] == "panics" or (obs[0].replace("yields ", "") not in str(j.get("observed")))
    if j.get("kind") in ("accepting", "pass-through", "nesting"):
        ok = not obs[0].startswith("rejected") and obs[0] != "panics"
        print("  (accepting case: re-run the full check to compare values)")
    print(("REPLAY-PASS" if ok else "REPLAY-VIOLATION") + f" property={j.get('property')}")
    return 0 if ok else 1


if __name__ == "__main__":
    sys.exit(run(sys.argv[1], sys.argv[2] if len(sys.argv) > 2 else "quick", int(sys.argv[3]) if len(sys.argv) > 3 else 0))
