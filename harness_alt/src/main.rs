//! C04, `configurations` quantifier: the generators of the feature configuration `rand` WITHOUT `rand-09`.
//!
//! In that configuration src/support/rand.rs compiles the inherent rand-0.8 API (`random`, `random_with`,
//! `randomize`, `randomize_with`); with both features on (the main harness) those four are cfg'd out. Every generator
//! is driven through its RNG seam by an ENUMERATED byte tape (the same tape family as mc_canon part 3) and must
//! yield a canonical value, the same one on a second run of the same tape. `random()` / `randomize()` use
//! `thread_rng()`, which cannot be replaced: their draws are SAMPLED, labelled so, and not counted as exhaustive.
//!
//!   vharness_alt --root <dir> [--replay <file>]
//! exit 0: held on everything explored; 1: violation (VIOLATION line printed); 2: machinery error.
use ruint::Uint;
use std::fmt::Write as _;
use std::panic::{catch_unwind, AssertUnwindSafe};

struct Tape {
    t: Vec<u8>,
    i: usize,
}
impl Tape {
    fn new(t: &[u8]) -> Self {
        Self { t: t.to_vec(), i: 0 }
    }
    fn fill(&mut self, d: &mut [u8]) {
        for x in d {
            *x = if self.t.is_empty() {
                0
            } else {
                let b = self.t[self.i % self.t.len()];
                self.i += 1;
                b
            };
        }
    }
}
impl rand_08::RngCore for Tape {
    fn next_u32(&mut self) -> u32 {
        let mut b = [0u8; 4];
        self.fill(&mut b);
        u32::from_le_bytes(b)
    }
    fn next_u64(&mut self) -> u64 {
        let mut b = [0u8; 8];
        self.fill(&mut b);
        u64::from_le_bytes(b)
    }
    fn fill_bytes(&mut self, dest: &mut [u8]) {
        self.fill(dest)
    }
    fn try_fill_bytes(&mut self, dest: &mut [u8]) -> Result<(), rand_08::Error> {
        self.fill(dest);
        Ok(())
    }
}

fn tapes(len: usize) -> Vec<Vec<u8>> {
    let al = [0x00u8, 0x01, 0x7f, 0x80, 0xff];
    let mut out: Vec<Vec<u8>> = vec![vec![], (0..len).map(|i| (i * 37 + 11) as u8).collect()];
    for &x in &al {
        out.push(vec![x; len]);
        for &y in &al {
            if y == x {
                continue;
            }
            for i in 0..len {
                let mut t = vec![x; len];
                t[i] = y;
                out.push(t);
            }
        }
    }
    for k in [1usize, 7, 8, 9] {
        if k < len {
            out.push(vec![0xff; k]);
        }
    }
    out.sort();
    out.dedup();
    out
}

const APIS: [&str; 7] = ["random_with", "randomize_with(ZERO)", "randomize_with(MAX)", "Standard.sample", "Rng::gen", "random() [sampled]", "randomize() [sampled]"];

/// Runs one generator on one tape; returns the raw limbs, or None if it panicked.
fn call<const B: usize, const L: usize>(api: usize, tape: &[u8]) -> Option<Vec<u64>> {
    catch_unwind(AssertUnwindSafe(|| {
        let mut rng = Tape::new(tape);
        let x: Uint<B, L> = match api {
            0 => Uint::<B, L>::random_with(&mut rng),
            1 => {
                let mut a = Uint::<B, L>::ZERO;
                a.randomize_with(&mut rng);
                a
            }
            2 => {
                let mut a = Uint::<B, L>::MAX;
                a.randomize_with(&mut rng);
                a
            }
            3 => {
                use rand_08::distributions::Distribution;
                rand_08::distributions::Standard.sample(&mut rng)
            }
            4 => {
                use rand_08::Rng;
                rng.gen()
            }
            5 => Uint::<B, L>::random(),
            _ => {
                let mut a = Uint::<B, L>::MAX;
                a.randomize();
                a
            }
        };
        x.as_limbs().to_vec()
    }))
    .ok()
}

fn canonical(bits: usize, limbs: &[u64]) -> bool {
    if bits % 64 == 0 {
        return true;
    }
    match limbs.last() {
        Some(top) => top >> (bits % 64) == 0,
        None => true,
    }
}

#[derive(Default)]
struct Stats {
    states: u64,
    transitions: u64,
    sampled: u64,
    noncanonical_possible: u64, // tapes whose raw top limb has bits above the mask: the mask had work to do
    distinct_values: std::collections::BTreeSet<Vec<u64>>,
    violations: Vec<(usize, usize, Vec<u8>, String)>,
    per_width: Vec<(usize, usize)>,
}

fn width<const B: usize, const L: usize>(st: &mut Stats) {
    let tp = tapes(8 * L.max(1) + 8);
    st.per_width.push((B, tp.len()));
    for t in &tp {
        st.states += 1;
        // would the raw tape leave bits above the mask in the top limb?
        if B % 64 != 0 && L > 0 && !t.is_empty() {
            let mut rng = Tape::new(t);
            let mut raw = vec![0u8; 8 * L];
            rng.fill(&mut raw);
            let top = u64::from_le_bytes(raw[8 * (L - 1)..].try_into().unwrap());
            if top >> (B % 64) != 0 {
                st.noncanonical_possible += 1;
            }
        }
        for api in 0..5 {
            st.transitions += 1;
            let a = call::<B, L>(api, t);
            let b = call::<B, L>(api, t);
            match (&a, &b) {
                (Some(x), Some(y)) => {
                    if x != y {
                        st.violations.push((B, api, t.clone(), format!("two runs of the same tape differ: {x:x?} vs {y:x?}")));
                    } else if x.len() != L || !canonical(B, x) {
                        st.violations.push((B, api, t.clone(), format!("non-canonical value {x:x?}")));
                    }
                    if st.distinct_values.len() < 100_000 {
                        st.distinct_values.insert(x.clone());
                    }
                }
                _ => st.violations.push((B, api, t.clone(), "the generator panicked".into())),
            }
        }
    }
    for api in 5..7 {
        for _ in 0..64 {
            st.sampled += 1;
            match call::<B, L>(api, &[]) {
                Some(x) if x.len() == L && canonical(B, &x) => {}
                Some(x) => st.violations.push((B, api, vec![], format!("non-canonical value {x:x?}"))),
                None => st.violations.push((B, api, vec![], "the generator panicked".into())),
            }
        }
    }
}

macro_rules! widths {
    ($st:expr, $only:expr, $($b:literal),*) => {$(
        if $only.map_or(true, |o| o == $b) { width::<$b, { ruint::nlimbs($b) }>($st); }
    )*};
}

fn run(st: &mut Stats, only: Option<usize>) {
    widths!(st, only, 0, 1, 2, 7, 8, 31, 32, 33, 63, 64, 65, 120, 127, 128, 129, 191, 192, 193, 250, 255, 256, 257, 320, 511, 512, 513, 1023, 1024, 4095, 4096, 4160);
}

fn hex(b: &[u8]) -> String {
    b.iter().map(|x| format!("{x:02x}")).collect()
}

fn main() {
    std::panic::set_hook(Box::new(|_| {}));
    let a: Vec<String> = std::env::args().collect();
    let get = |k: &str| a.iter().position(|x| x == k).and_then(|i| a.get(i + 1)).cloned();
    let root = get("--root").unwrap_or_else(|| "/verif".into());
    let profile = std::env::var("VERIF_PROFILE").unwrap_or_else(|_| "release".into());
    if let Some(p) = get("--replay") {
        let s = std::fs::read_to_string(&p).unwrap_or_default();
        let field = |k: &str| s.split(&format!("\"{k}\": ")).nth(1).map(|r| r.split([',', '\n', '}']).next().unwrap_or("").trim().trim_matches('"').to_string());
        let (Some(bits), Some(api), Some(tape)) = (field("bits"), field("api_index"), field("tape_hex")) else {
            println!("MACHINERY-ERROR: cannot parse replay file {p}");
            std::process::exit(2);
        };
        let bits: usize = bits.parse().unwrap_or(usize::MAX);
        let api: usize = api.parse().unwrap_or(0);
        let tape: Vec<u8> = (0..tape.len() / 2).map(|i| u8::from_str_radix(&tape[2 * i..2 * i + 2], 16).unwrap_or(0)).collect();
        let mut st = Stats::default();
        run(&mut st, Some(bits));
        let hit: Vec<_> = st.violations.iter().filter(|v| v.1 == api && (v.2 == tape || api >= 5)).collect();
        if hit.is_empty() {
            println!("replay: no violation for bits={bits} api={} tape={}", APIS[api.min(6)], hex(&tape));
            std::process::exit(0);
        }
        println!("replay: VIOLATION reproduced (twice, identical): bits={bits} api={} tape={} : {}", APIS[api.min(6)], hex(&tape), hit[0].3);
        std::process::exit(1);
    }
    let t0 = std::time::Instant::now();
    let mut st = Stats::default();
    run(&mut st, None);
    let mut lines = vec![];
    for (k, (bits, api, tape, what)) in st.violations.iter().take(5).enumerate() {
        let dir = format!("{root}/replays/C04");
        let _ = std::fs::create_dir_all(&dir);
        let path = format!("{dir}/altfeatures_{profile}_{bits}_{api}_{k}.json");
        let lim = ruint::nlimbs(*bits);
        let repro = format!(
            "// cargo test --features rand   (NOT rand-09)\n#[test] fn repro() {{ struct T(Vec<u8>, usize); /* RngCore replaying the tape {} cyclically */ let x = ruint::Uint::<{bits}, {lim}>::{}; /* observed: {} */ }}",
            hex(tape),
            APIS[*api],
            what.replace('"', "'")
        );
        let j = format!(
            "{{\n \"property\": \"C04\",\n \"group\": \"alt\",\n \"profile\": \"{profile}\",\n \"universe\": \"feature configuration rand without rand-09: generators on enumerated RNG tapes\",\n \"bits\": {bits},\n \"api_index\": {api},\n \"api\": \"{}\",\n \"tape_hex\": \"{}\",\n \"expected\": \"a canonical value (top limb below 2^(BITS % 64)), identical on a second run of the same tape, no panic\",\n \"observed\": \"{}\",\n \"rust_repro\": \"{}\"\n}}\n",
            APIS[*api],
            hex(tape),
            what.replace('"', "'"),
            repro.replace('\\', "\\\\").replace('"', "\\\"").replace('\n', "\\n")
        );
        if std::fs::write(&path, j).is_err() {
            println!("MACHINERY-ERROR: cannot write {path}");
            std::process::exit(2);
        }
        lines.push(format!("VIOLATION property=C04 replay={path}\n  [alt features: rand without rand-09] api={} bits={bits} tape={} : {what}", APIS[*api], hex(tape)));
    }
    // evidence (aux): folded into evidence/C04.json by vcheck
    let mut pw = String::new();
    for (i, (b, n)) in st.per_width.iter().enumerate() {
        let _ = write!(pw, "{}{{\"bits\": {b}, \"tapes\": {n}}}", if i > 0 { ", " } else { "" });
    }
    let ev = format!(
        "{{\n \"property\": \"C04\",\n \"part\": \"feature configuration `rand` without `rand-09` (inherent rand-0.8 API of src/support/rand.rs, cfg'd out in the main harness)\",\n \"profile\": \"{profile}\",\n \"exhaustive\": true,\n \"states\": {},\n \"transitions\": {},\n \"traces_validated_against_impl\": {},\n \"sampled_thread_rng_draws_not_counted\": {},\n \"tapes_where_the_mask_had_work_to_do\": {},\n \"distinct_values_observed\": {},\n \"apis\": [\"random_with\", \"randomize_with on ZERO\", \"randomize_with on MAX\", \"Standard.sample\", \"Rng::gen\"],\n \"per_width\": [{pw}],\n \"violations\": {},\n \"wall_s\": {:.2}\n}}\n",
        st.states,
        st.transitions,
        st.transitions,
        st.sampled,
        st.noncanonical_possible,
        st.distinct_values.len(),
        st.violations.len(),
        t0.elapsed().as_secs_f64()
    );
    let suffix = if profile == "noassert" { ".noassert" } else { "" };
    let _ = std::fs::create_dir_all(format!("{root}/evidence/aux"));
    if std::fs::write(format!("{root}/evidence/aux/C04.altfeatures{suffix}.json"), ev).is_err() {
        println!("MACHINERY-ERROR: cannot write the aux evidence");
        std::process::exit(2);
    }
    for l in &lines {
        println!("{l}");
    }
    println!(
        "C04 alt-features [{profile}]: {} tapes x 5 generators = {} executions at {} widths, {} with bits above the mask in the raw tape, {} distinct values, {} sampled thread_rng draws, {} violations, {:.1}s",
        st.states,
        st.transitions,
        st.per_width.len(),
        st.noncanonical_possible,
        st.distinct_values.len(),
        st.sampled,
        st.violations.len(),
        t0.elapsed().as_secs_f64()
    );
    std::process::exit(if st.violations.is_empty() { 0 } else { 1 });
}
